/-
  Property C19, first clause, for the conversions `Decimal.Float64` / `Decimal.Float32` — PARTIAL.

  `Float64` is specified only up to one binary ulp (`Props.C09.float64_adjacent`: the result is a float adjacent
  to the exact value, not necessarily the nearest), so independence of the encoding does not follow from its
  specification in general.  It does wherever the specification pins the result down to one float:

  * `float64_encoding_independent_trivial`   NaN (any payload), ±Inf, ±0 (any exponent): bit-identical results
  * `float64_encoding_independent_near`      the value lies within `2^-100` (relative) of a finite non-zero float64
                                             `f` — in particular every exactly representable value: both
                                             encodings return `f`
  * `float64_encoding_independent_overflow`  `|d| ≥ 2^1024`: both return ±Inf
  * `float64_encoding_independent_underflow` `|d| ≤ 2^-1075`: both return ±0
  * `float32_…` the same through `Float32 d = float32(Float64 d)`
  Open: a finite value strictly between two adjacent floats and further than `2^-100` (relative) from both.  (The
  two encodings run the same exact multiplications/divisions by ten first and meet in the same register state
  whenever no truncating step comes earlier; a proof that the truncating steps cannot make the final rounding
  differ would need worst-case bounds of the kind proved for `FromFloat64` by certificates.)
-/
import D128.Props.C09
import D128.Props.C19b
set_option autoImplicit false

namespace Props.C19
open Cohort Go

/-- the value a bit pattern denotes -/
local notation "𝔳[" d "]" => Spec.interp (Gen.Decimal.lo d) (Gen.Decimal.hi d)

theorem float64_encoding_independent_trivial (d d' : Gen.Decimal) (h : (𝔳[d]).sameNum 𝔳[d'] = true)
    (ht : Gen.Decimal.isSpecial d = true ∨ Gen.Decimal.IsZero d = true) :
    Gen.Decimal.Float64 d = Gen.Decimal.Float64 d' := float64_encoding_independent_partial d d' h ht

/-- finite non-zero patterns of one value, as coefficient/exponent pairs -/
private theorem fin_pair (d d' : Gen.Decimal) (h : (𝔳[d]).same 𝔳[d'] = true) (n : Bool) (c : Nat) (x : Int)
    (hv : 𝔳[d] = .fin n c x) (hc : c ≠ 0) :
    ∃ c' x', 𝔳[d'] = .fin n c' x' ∧ c' ≠ 0 ∧ (c' : ℚ) * 10 ^ x' = (c : ℚ) * 10 ^ x := by
  rcases same_cases h with ⟨_, _, h1, _⟩ | ⟨_, h1, _⟩ | ⟨n1, c1, e1, c', e', h1, h2, hm⟩
  · rw [hv] at h1; cases h1
  · rw [hv] at h1; cases h1
  · rw [hv] at h1; cases h1
    exact ⟨c', e', h2, fun h0 => hc ((zero_iff_of_mag hm).2 h0), hm.symm⟩

/-- **`Float64` near a float.**  If the finite non-zero value of `d` is within `2^-100` (relative) of a finite
    non-zero float64 `f` of the same sign — e.g. equal to it — then every encoding of that value converts to `f`. -/
theorem float64_encoding_independent_near (d d' : Gen.Decimal) (h : (𝔳[d]).same 𝔳[d'] = true)
    (n : Bool) (c : Nat) (x : Int) (hv : 𝔳[d] = .fin n c x) (hc : c ≠ 0)
    (f : F64) (hf : f.isFinite = true) (hz : f.isZero = false) (hs : f.sign = n)
    (hnear : |(c : ℚ) * 10 ^ x - f.mag| ≤ f.mag / 2 ^ 100) :
    Gen.Decimal.Float64 d = .ok f ∧ Gen.Decimal.Float64 d' = .ok f := by
  obtain ⟨c', x', hv', hc', hm⟩ := fin_pair d d' h n c x hv hc
  exact ⟨F2.Float64_roundtrip d n c x hv hc f hf hz hs hnear,
    F2.Float64_roundtrip d' n c' x' hv' hc' f hf hz hs (by rw [hm]; exact hnear)⟩

theorem float64_encoding_independent_overflow (d d' : Gen.Decimal) (h : (𝔳[d]).same 𝔳[d'] = true)
    (n : Bool) (c : Nat) (x : Int) (hv : 𝔳[d] = .fin n c x) (hc : c ≠ 0)
    (hbig : (2 : ℚ) ^ (1024 : ℤ) ≤ (c : ℚ) * 10 ^ x) :
    Gen.Decimal.Float64 d = .ok (F2.infRes n) ∧ Gen.Decimal.Float64 d' = .ok (F2.infRes n) := by
  obtain ⟨c', x', hv', hc', hm⟩ := fin_pair d d' h n c x hv hc
  exact ⟨Props.C09.float64_overflow d n c x hv hc hbig,
    Props.C09.float64_overflow d' n c' x' hv' hc' (by rw [hm]; exact hbig)⟩

theorem float64_encoding_independent_underflow (d d' : Gen.Decimal) (h : (𝔳[d]).same 𝔳[d'] = true)
    (n : Bool) (c : Nat) (x : Int) (hv : 𝔳[d] = .fin n c x) (hc : c ≠ 0)
    (hsmall : (c : ℚ) * 10 ^ x ≤ (2 : ℚ) ^ (-1075 : ℤ)) :
    Gen.Decimal.Float64 d = .ok (F2.zeroRes n) ∧ Gen.Decimal.Float64 d' = .ok (F2.zeroRes n) := by
  obtain ⟨c', x', hv', hc', hm⟩ := fin_pair d d' h n c x hv hc
  exact ⟨Props.C09.float64_underflow d n c x hv hc hsmall,
    Props.C09.float64_underflow d' n c' x' hv' hc' (by rw [hm]; exact hsmall)⟩

/-- `Float32` is `float32(Float64 d)`: wherever `Float64` does not depend on the encoding, `Float32` does not -/
theorem float32_of_float64 (d d' : Gen.Decimal)
    (h : Gen.Decimal.Float64 d = Gen.Decimal.Float64 d') :
    Gen.Decimal.Float32 d = Gen.Decimal.Float32 d' := by
  rw [F2.Float32_eq, F2.Float32_eq, h]

theorem float32_encoding_independent_near (d d' : Gen.Decimal) (h : (𝔳[d]).same 𝔳[d'] = true)
    (n : Bool) (c : Nat) (x : Int) (hv : 𝔳[d] = .fin n c x) (hc : c ≠ 0)
    (f : F64) (hf : f.isFinite = true) (hz : f.isZero = false) (hs : f.sign = n)
    (hnear : |(c : ℚ) * 10 ^ x - f.mag| ≤ f.mag / 2 ^ 100) :
    Gen.Decimal.Float32 d = Gen.Decimal.Float32 d' := by
  obtain ⟨a, b⟩ := float64_encoding_independent_near d d' h n c x hv hc f hf hz hs hnear
  exact float32_of_float64 d d' (a.trans b.symm)

/-- hypotheses satisfiable: `0.5` written `5e-1` and `50e-2` is the float64 `0x3fe0000000000000` -/
example := float64_encoding_independent_near (Gen.compose false ⟨5, 0⟩ 6175) (Gen.compose false ⟨50, 0⟩ 6174)
  (by decide +kernel) false 5 (-1) (by decide +kernel) (by decide) ⟨0x3fe0000000000000⟩ (by decide) (by decide)
  (by decide)
  (by
    have h : (F64.mk 0x3fe0000000000000).dyadic = (2 ^ 52, -53) := by decide
    unfold F64.mag; rw [h]; norm_num)

end Props.C19
