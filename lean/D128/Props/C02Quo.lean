/-
  Property C02 (division) — `Quo` is correctly rounded in all six rounding modes.
  Statements about the generated `Gen.Decimal.QuoWithMode`, `Gen.Decimal.Quo` (translation of
  /repo/arith.go) against `Spec.quo` (D128/Spec/Arith.lean) over `Spec.interp d.lo d.hi`, for ALL
  2^256 operand pairs (NaN, ±Inf, ±0, finite) and every valid mode byte.  Each theorem also shows that
  the call terminates and does not panic (in particular: the nine `for` loops of `QuoWithMode`
  terminate, `bits.Div64` / `uint128.div` never divide by zero or overflow, `int16` exponent
  arithmetic never wraps).

  * `quo_correct`   `QuoWithMode d o rm` returns a Decimal denoting `Spec.quo m 𝔳[d] 𝔳[o]`
  * `quo_default`   `Quo g d o = QuoWithMode d o g.DefaultRoundingMode`
  * `quo_correct_default`  the corollary for `Quo`

  Proofs assemble `Props.C15.quo_prologue` (an operand is special or zero: NaN propagation, Inf/Inf and
  0/0 invalid, x/0 = ±Inf, 0/x = ±0, x/Inf = ±0) and `MQ.quo_finite` (D128/Proofs/MulQuoQuo.lean: the
  invariant `dSig·10^k = sig·oSig + rem ∧ rem < oSig` through the scaling and digit-accumulation loops,
  sticky flag from `rem ≠ 0` and from digits dropped off a 129-bit sum, `reduce128_correct`).
-/
import D128.Props.C15
import D128.Proofs.MulQuoQuo
set_option autoImplicit false

namespace Props.C02

/-- the value a bit pattern denotes -/
local notation "𝔳[" d "]" => Spec.interp (Gen.Decimal.lo d) (Gen.Decimal.hi d)

/-- **C02, division.**  For every pair of bit patterns and every valid rounding mode,
    `QuoWithMode` returns (no panic, terminates) a Decimal that denotes the correctly rounded quotient
    `Spec.quo m 𝔳[d] 𝔳[o]`: NaN propagation / invalid-operation payloads (Inf/Inf, 0/0), ±Inf for
    division of a non-zero finite number by zero, signed zeros, and for finite non-zero operands the
    member of the format mode `m` selects for the exact quotient (signed zero below 1e-6177, ±Inf on
    overflow). -/
theorem quo_correct (d o : Gen.Decimal) (rm : UInt8) (m : Spec.Mode)
    (hm : Spec.Mode.ofNat? rm.toNat = some m) :
    ∃ r, Gen.Decimal.QuoWithMode d o rm = .ok r ∧ (𝔳[r]).same (Spec.quo m 𝔳[d] 𝔳[o]) = true := by
  cases hd : Gen.Decimal.isSpecial d
  · cases ho : Gen.Decimal.isSpecial o
    · cases zd : Gen.Decimal.IsZero d
      · cases zo : Gen.Decimal.IsZero o
        · exact MQ.quo_finite d o rm m hm hd ho zd zo
        · exact Props.C15.quo_prologue d o rm m (Or.inr (Or.inr (Or.inr zo)))
      · exact Props.C15.quo_prologue d o rm m (Or.inr (Or.inr (Or.inl zd)))
    · exact Props.C15.quo_prologue d o rm m (Or.inr (Or.inl ho))
  · exact Props.C15.quo_prologue d o rm m (Or.inl hd)

/-- `Quo` is `QuoWithMode` at the package default rounding mode. -/
theorem quo_default (g : Globals) (d o : Gen.Decimal) :
    Gen.Decimal.Quo g d o = Gen.Decimal.QuoWithMode d o g.DefaultRoundingMode :=
  Props.C15.quo_eq_withMode g d o

theorem quo_correct_default (g : Globals) (d o : Gen.Decimal) (m : Spec.Mode)
    (hm : Spec.Mode.ofNat? g.DefaultRoundingMode.toNat = some m) :
    ∃ r, Gen.Decimal.Quo g d o = .ok r ∧ (𝔳[r]).same (Spec.quo m 𝔳[d] 𝔳[o]) = true := by
  rw [quo_default]; exact quo_correct d o g.DefaultRoundingMode m hm

/-! ### the hypotheses are satisfiable -/

/-- `1 / 3` toward positive infinity (mode byte 5): a non-terminating quotient through the 64-bit path -/
example : ∃ r, Gen.Decimal.QuoWithMode (Gen.compose false ⟨1, 0⟩ 6176) (Gen.compose false ⟨3, 0⟩ 6176) 5
      = .ok r ∧
    (𝔳[r]).same (Spec.quo .toPosInf 𝔳[Gen.compose false ⟨1, 0⟩ 6176]
      𝔳[Gen.compose false ⟨3, 0⟩ 6176]) = true :=
  quo_correct _ _ 5 .toPosInf rfl

/-- `-(2^64 + 1) / 7e-10`, half away from zero (mode byte 1): the 128-bit path -/
example : ∃ r, Gen.Decimal.QuoWithMode (Gen.compose true ⟨1, 1⟩ 6176) (Gen.compose false ⟨7, 0⟩ 6166) 1
      = .ok r ∧
    (𝔳[r]).same (Spec.quo .nearestAway 𝔳[Gen.compose true ⟨1, 1⟩ 6176]
      𝔳[Gen.compose false ⟨7, 0⟩ 6166]) = true :=
  quo_correct _ _ 1 .nearestAway rfl

/-- … and for the default-mode entry point -/
example (g : Globals) (hg : g.DefaultRoundingMode = 0) :
    ∃ r, Gen.Decimal.Quo g (Gen.compose false ⟨1, 0⟩ 6176) (Gen.inf true) = .ok r ∧
    (𝔳[r]).same (Spec.quo .nearestEven 𝔳[Gen.compose false ⟨1, 0⟩ 6176] 𝔳[Gen.inf true]) = true :=
  quo_correct_default g _ _ .nearestEven (by rw [hg]; rfl)

end Props.C02
