/-
  Property C03 — QuoRem returns the truncated integer quotient (rounded to the format when it has more
  than 34 digits) and the exact remainder.
  Statements about the generated `Gen.Decimal.QuoRemWithMode`, `Gen.Decimal.QuoRem` (translation of
  /repo/arith.go) against `Spec.quoRem` (D128/Spec/Arith.lean) over `Spec.interp d.lo d.hi`, for ALL
  2^256 operand pairs (NaN, ±Inf, ±0, finite) and every valid mode byte.  Each theorem also shows that
  the call terminates and does not panic.

  * `quoRem_correct`          `QuoRemWithMode d o rm` returns `(q, r)` denoting `Spec.quoRem m 𝔳[d] 𝔳[o]`
  * `quoRem_default`          `QuoRem g d o = QuoRemWithMode d o g.DefaultRoundingMode`
  * `quoRem_correct_default`  the corollary for `QuoRem`
  Corollaries in terms of rational numbers (finite `x`, finite non-zero `y`):
  * `quoRem_remainder`        the remainder is finite, has the sign of `x`, is exactly
                              `x − y·trunc(x/y)` and `|r| < |y|`
  * `quoRem_quotient`         a truncated quotient of at most `Cmax` (in particular of at most 34 digits)
                              is returned exactly, with the xor of the signs, in every mode
  * `quoRem_small`            `|x| < |y|`: the quotient is a zero carrying the xor of the signs and the
                              remainder is `x`

  Proofs assemble `Props.C15.quoRem_prologue` (an operand is special or zero) and `QR.quoRem_finite`
  (D128/Proofs/QuoRemTop.lean: staging `QuoRemCode`, loops `QuoRemLoops`/`QuoRemAccum`, long-division
  invariant `QuoRemMath`, `reduce128_correct`), and `QR.spec_rem_exact`, `QR.spec_small`
  (D128/Proofs/QuoRemSpecCor.lean).
-/
import D128.Props.C15
import D128.Proofs.QuoRemTop
import D128.Proofs.QuoRemSpecCor
set_option autoImplicit false

namespace Props.C03

/-- the value a bit pattern denotes -/
local notation "𝔳[" d "]" => Spec.interp (Gen.Decimal.lo d) (Gen.Decimal.hi d)

/-- **C03.**  For every pair of bit patterns and every valid rounding mode, `QuoRemWithMode` returns
    (no panic, terminates) a pair of Decimals denoting `Spec.quoRem m 𝔳[d] 𝔳[o]`: NaN propagation /
    invalid-operation payloads, ±Inf, signed zeros, and for finite non-zero operands the integer
    quotient `trunc(x/y)` (the member of the format mode `m` selects when it has more than 34 digits,
    ±Inf beyond the largest finite Decimal) together with the exact remainder carrying the sign of
    `x`. -/
theorem quoRem_correct (d o : Gen.Decimal) (rm : UInt8) (m : Spec.Mode)
    (hm : Spec.Mode.ofNat? rm.toNat = some m) :
    ∃ q r, Gen.Decimal.QuoRemWithMode d o rm = .ok (q, r) ∧
      (𝔳[q]).same (Spec.quoRem m 𝔳[d] 𝔳[o]).1 = true ∧
      (𝔳[r]).same (Spec.quoRem m 𝔳[d] 𝔳[o]).2 = true := by
  cases hd : Gen.Decimal.isSpecial d
  · cases ho : Gen.Decimal.isSpecial o
    · cases zd : Gen.Decimal.IsZero d
      · cases zo : Gen.Decimal.IsZero o
        · exact QR.quoRem_finite d o rm m hm hd ho zd zo
        · exact Props.C15.quoRem_prologue d o rm m (Or.inr (Or.inr (Or.inr zo)))
      · exact Props.C15.quoRem_prologue d o rm m (Or.inr (Or.inr (Or.inl zd)))
    · exact Props.C15.quoRem_prologue d o rm m (Or.inr (Or.inl ho))
  · exact Props.C15.quoRem_prologue d o rm m (Or.inl hd)

/-- the hypotheses are satisfiable: `1e100 ÷ 7` (a quotient of 100 digits, rounded; remainder 5), and
    `-7 ÷ 3e-3` -/
example := quoRem_correct ⟨1, 0x3108000000000000⟩ ⟨7, 0x3040000000000000⟩ 0 .nearestEven rfl
example := quoRem_correct ⟨7, 0xb040000000000000⟩ ⟨3, 0x303a000000000000⟩ 4 .toNegInf rfl

/-- `QuoRem` is `QuoRemWithMode` at the package default rounding mode. -/
theorem quoRem_default (g : Globals) (d o : Gen.Decimal) :
    Gen.Decimal.QuoRem g d o = Gen.Decimal.QuoRemWithMode d o g.DefaultRoundingMode :=
  Props.C15.quoRem_eq_withMode g d o

theorem quoRem_correct_default (g : Globals) (d o : Gen.Decimal) (m : Spec.Mode)
    (hm : Spec.Mode.ofNat? g.DefaultRoundingMode.toNat = some m) :
    ∃ q r, Gen.Decimal.QuoRem g d o = .ok (q, r) ∧
      (𝔳[q]).same (Spec.quoRem m 𝔳[d] 𝔳[o]).1 = true ∧
      (𝔳[r]).same (Spec.quoRem m 𝔳[d] 𝔳[o]).2 = true := by
  rw [quoRem_default]; exact quoRem_correct d o g.DefaultRoundingMode m hm

/-! ## corollaries in terms of rational numbers -/

/-- a finite bit pattern denotes a member of the format -/
theorem finite_view (d : Gen.Decimal) (hd : Gen.Decimal.isSpecial d = false) :
    ∃ n c e, 𝔳[d] = .fin n c e ∧ c ≤ Spec.Cmax ∧ Spec.Emin ≤ e ∧ e ≤ Spec.Emax ∧
      (c = 0 ↔ Gen.Decimal.IsZero d = true) := by
  refine ⟨_, _, _, Enc.interp_decompose d hd, Enc.decompose_sig_le d, ?_, ?_, ?_⟩
  · have := Enc.decompose_exp_nonneg d
    unfold Spec.Emin; omega
  · have := Enc.decompose_exp_le d hd
    unfold Spec.Emax; omega
  · rw [Sp.IsZero_eq_sig]; simp

/-- **C03, remainder.**  For finite `x = 𝔳[d]` and finite non-zero `y = 𝔳[o]` the returned remainder
    is finite, carries the sign of `x` (also when it is zero), equals `x − y·trunc(x/y)` exactly as a
    rational number, and is smaller than `y` in magnitude. -/
theorem quoRem_remainder (d o : Gen.Decimal) (rm : UInt8) (m : Spec.Mode)
    (hm : Spec.Mode.ofNat? rm.toNat = some m)
    (hd : Gen.Decimal.isSpecial d = false) (ho : Gen.Decimal.isSpecial o = false)
    (zo : Gen.Decimal.IsZero o = false) :
    ∃ q r, Gen.Decimal.QuoRemWithMode d o rm = .ok (q, r) ∧
      (𝔳[r]).isFin = true ∧ (𝔳[r]).neg = (𝔳[d]).neg ∧
      (𝔳[r]).toRat = (𝔳[d]).toRat - (𝔳[o]).toRat * QR.truncQuo 𝔳[d] 𝔳[o] ∧
      (𝔳[r]).abs < (𝔳[o]).abs := by
  obtain ⟨q, r, hqr, -, hr⟩ := quoRem_correct d o rm m hm
  obtain ⟨n, c, e, hv, hc, he1, he2, -⟩ := finite_view d hd
  obtain ⟨n', c', e', hv', hc', he1', -, hz'⟩ := finite_view o ho
  have hc'0 : c' ≠ 0 := by
    intro h; rw [hz'.1 h] at zo; cases zo
  rw [hv, hv'] at hr ⊢
  obtain ⟨cr, er, hfin, hval, hlt⟩ := QR.spec_rem_exact m n n' c c' e e' hc'0 hc hc' he1 he2 he1'
  rw [hfin] at hr
  obtain ⟨f1, f2, f3, f4⟩ := QR.same_fin_facts hr
  exact ⟨q, r, hqr, f1, f2, by rw [f4]; exact hval, by rw [f3]; exact hlt⟩

/-- **C03, quotient.**  For finite `x = 𝔳[d]` and finite non-zero `y = 𝔳[o]` whose truncated quotient
    `trunc(|x|/|y|)` fits the coefficient range (at most `Cmax = 5·2^111 − 1`, in particular every
    quotient of at most 34 digits) the returned quotient is finite, carries the xor of the operand
    signs and equals `trunc(x/y)` exactly, in every rounding mode. -/
theorem quoRem_quotient (d o : Gen.Decimal) (rm : UInt8) (m : Spec.Mode)
    (hm : Spec.Mode.ofNat? rm.toNat = some m)
    (hd : Gen.Decimal.isSpecial d = false) (ho : Gen.Decimal.isSpecial o = false)
    (zo : Gen.Decimal.IsZero o = false)
    (ht : Spec.truncNat ((𝔳[d]).abs / (𝔳[o]).abs) ≤ Spec.Cmax) :
    ∃ q r, Gen.Decimal.QuoRemWithMode d o rm = .ok (q, r) ∧
      (𝔳[q]).isFin = true ∧ (𝔳[q]).neg = ((𝔳[d]).neg != (𝔳[o]).neg) ∧
      (𝔳[q]).toRat = QR.truncQuo 𝔳[d] 𝔳[o] := by
  obtain ⟨q, r, hqr, hq, -⟩ := quoRem_correct d o rm m hm
  obtain ⟨n, c, e, hv, -, -, -, -⟩ := finite_view d hd
  obtain ⟨n', c', e', hv', -, -, -, hz'⟩ := finite_view o ho
  have hc'0 : c' ≠ 0 := by
    intro h; rw [hz'.1 h] at zo; cases zo
  rw [hv, hv'] at hq ht ⊢
  obtain ⟨cq, eq, hfin, hval⟩ := QR.spec_quo_exact m n n' c c' e e' hc'0 ht
  rw [hfin] at hq
  obtain ⟨f1, f2, -, f4⟩ := QR.same_fin_facts hq
  exact ⟨q, r, hqr, f1, f2, by rw [f4]; exact hval⟩

/-- **C03, small dividend.**  For finite non-zero `x = 𝔳[d]` and finite `y = 𝔳[o]` with `|x| < |y|`
    the quotient is a zero whose sign is the xor of the operand signs and the remainder is `x`. -/
theorem quoRem_small (d o : Gen.Decimal) (rm : UInt8) (m : Spec.Mode)
    (hm : Spec.Mode.ofNat? rm.toNat = some m)
    (hd : Gen.Decimal.isSpecial d = false) (ho : Gen.Decimal.isSpecial o = false)
    (zd : Gen.Decimal.IsZero d = false) (hlt : (𝔳[d]).abs < (𝔳[o]).abs) :
    ∃ q r, Gen.Decimal.QuoRemWithMode d o rm = .ok (q, r) ∧
      (𝔳[q]).same (.fin ((𝔳[d]).neg != (𝔳[o]).neg) 0 0) = true ∧ (𝔳[r]).same 𝔳[d] = true := by
  obtain ⟨q, r, hqr, hq, hr⟩ := quoRem_correct d o rm m hm
  obtain ⟨n, c, e, hv, hc, he1, he2, hz⟩ := finite_view d hd
  obtain ⟨n', c', e', hv', -, -, -, -⟩ := finite_view o ho
  have hc0 : c ≠ 0 := by
    intro h; rw [hz.1 h] at zd; cases zd
  rw [hv, hv'] at hq hr hlt ⊢
  obtain ⟨h1, h2⟩ := QR.spec_small m n n' c c' e e' hc0 hc he1 he2 hlt
  rw [h1] at hq
  refine ⟨q, r, hqr, hq, ?_⟩
  exact QR.same_trans hr (by rw [QR.same_symm]; exact h2)

/-- the hypotheses are satisfiable: `5 ÷ 7e3` -/
example := quoRem_small ⟨5, 0x3040000000000000⟩ ⟨7, 0x3046000000000000⟩ 0 .nearestEven rfl
  (by decide) (by decide) (by decide)
  (by rw [Enc.interp_decompose _ (by decide), Enc.interp_decompose _ (by decide)]
      simp only [Spec.Val.abs, Spec.mag]
      decide +kernel)
example := quoRem_remainder ⟨1, 0x3108000000000000⟩ ⟨7, 0x3040000000000000⟩ 0 .nearestEven rfl
  (by decide) (by decide) (by decide)
/-- `1e20 ÷ 7`: the quotient 14285714285714285714 is returned exactly -/
example := quoRem_quotient ⟨1, 0x3068000000000000⟩ ⟨7, 0x3040000000000000⟩ 0 .nearestEven rfl
  (by decide) (by decide) (by decide)
  (by rw [Enc.interp_decompose _ (by decide), Enc.interp_decompose _ (by decide)]
      simp only [Spec.Val.abs, Spec.mag]
      decide +kernel)

end Props.C03
