/-
  Property C08 — Round, Ceil, Floor, Trunc quantise exactly as specified.
  Statements about the generated `Gen.Decimal.Round`, `Gen.Decimal.Ceil`, `Gen.Decimal.Floor`,
  `Gen.Round`, `Gen.Trunc`, `Gen.Ceil`, `Gen.Floor` (translation of /repo/rounding.go) against
  `Spec.quantize`, `Spec.ceilDp`, `Spec.floorDp` (D128/Spec/Arith.lean) over `Spec.interp d.lo d.hi`,
  for ALL 2^128 bit patterns `d` (NaN, ±Inf, ±0, finite, non-canonical), ALL `dp : Int64` (Go `int`,
  including MinInt64/MaxInt64) and every valid mode byte.  Each theorem also shows that the call
  terminates and does not panic.

  * `round_dp_correct`  `d.Round(dp, rm)` denotes `Spec.quantize dp m 𝔳[d]`
  * `round_dp_invalid_mode`, `round_total` : any other mode byte truncates like ToZero; `Round` never panics
  * `ceil_correct`      `d.Ceil(dp)`  denotes `Spec.ceilDp dp 𝔳[d]`
  * `floor_correct`     `d.Floor(dp)` denotes `Spec.floorDp dp 𝔳[d]`
  * `pkg_round`, `pkg_trunc`, `pkg_ceil`, `pkg_floor` : the package functions are the methods at `dp = 0`
    (`Round`: ToNearestAway, `Trunc`: ToZero), with the corollaries `pkg_round_correct`, …
  * corollaries from the specification side: `round_signbit`, `ceil_signbit`, `floor_signbit` (the sign
    bit is kept, also when the result is zero or ±Inf), `round_isNaN`, … (NaN in ⇔ NaN out),
    `round_special`, `ceil_special`, `floor_special` (NaN and ±Inf are returned bit for bit),
    `round_idempotent`, `ceil_idempotent`, `floor_idempotent` (applying the operation to its own result
    with the same `dp` and mode gives the same value again)

  Proofs assemble `Sp.Round_spec` … (special or zero operand, D128/Proofs/SpecialsMisc.lean) and
  `Qz.round_finite`, `Qz.ceil_finite`, `Qz.floor_finite` (D128/Proofs/QuantizeRound.lean,
  D128/Proofs/QuantizeCeilFloor.lean).
-/
import D128.Proofs.SpecialsMisc
import D128.Proofs.QuantizeCeilFloor
import D128.Proofs.QuantizeProps
import D128.Proofs.QuantizeIdem
set_option autoImplicit false

namespace Props.C08

/-- the value a bit pattern denotes -/
local notation "𝔳[" d "]" => Spec.interp (Gen.Decimal.lo d) (Gen.Decimal.hi d)

/-! ## the three methods -/

/-- **C08, Round.**  For every bit pattern, every `dp` and every valid rounding mode, `d.Round(dp, rm)`
    returns (no panic, terminates) a Decimal that denotes `Spec.quantize dp m 𝔳[d]`: NaN and ±Inf
    unchanged, a signed zero for zeros and for magnitudes below a tenth of the quantum `10^-dp`, the
    operand itself when it already is a multiple of the quantum, and otherwise the multiple of the quantum
    that mode `m` selects (±Inf when that multiple exceeds the largest finite Decimal). -/
theorem round_dp_correct (d : Gen.Decimal) (dp : Int64) (rm : UInt8) (m : Spec.Mode)
    (hm : Spec.Mode.ofNat? rm.toNat = some m) :
    ∃ r, Gen.Decimal.Round d dp rm = .ok r ∧
      (𝔳[r]).same (Spec.quantize dp.toInt m 𝔳[d]) = true := by
  cases hd : Gen.Decimal.isSpecial d
  · cases hz : Gen.Decimal.IsZero d
    · exact Qz.round_finite d dp rm m (Qz.modeOK_of_valid rm m hm) hd hz
    · exact Sp.Round_spec d dp rm dp.toInt m (Or.inr hz)
  · exact Sp.Round_spec d dp rm dp.toInt m (Or.inl hd)

/-- the hypotheses are satisfiable: 1.2345 to two places, to nearest even -/
example := round_dp_correct ⟨12345, 3474527112516337664⟩ 2 0 .nearestEven rfl
/-- … and `MinInt64` places with a non-canonical operand, toward +∞ -/
example := round_dp_correct ⟨5, 0x6c00000000000001⟩ (-9223372036854775808) 5 .toPosInf rfl

/-- A mode byte outside `ToNearestEven … ToPositiveInf` (`RoundingMode` is a `uint8`; the `switch` of
    `round` has no `default`) makes `Round` truncate toward zero: the result denotes
    `Spec.quantize dp .toZero 𝔳[d]`. -/
theorem round_dp_invalid_mode (d : Gen.Decimal) (dp : Int64) (rm : UInt8) (hrm : 6 ≤ rm.toNat) :
    ∃ r, Gen.Decimal.Round d dp rm = .ok r ∧
      (𝔳[r]).same (Spec.quantize dp.toInt .toZero 𝔳[d]) = true := by
  cases hd : Gen.Decimal.isSpecial d
  · cases hz : Gen.Decimal.IsZero d
    · exact Qz.round_finite d dp rm .toZero (Qz.modeOK_invalid rm hrm) hd hz
    · exact Sp.Round_spec d dp rm dp.toInt .toZero (Or.inr hz)
  · exact Sp.Round_spec d dp rm dp.toInt .toZero (Or.inl hd)

example := round_dp_invalid_mode ⟨12345, 3474527112516337664⟩ 2 200 (by decide)

/-- `Round` terminates without panic for every bit pattern, every `dp` and every mode byte -/
theorem round_total (d : Gen.Decimal) (dp : Int64) (rm : UInt8) :
    ∃ r, Gen.Decimal.Round d dp rm = .ok r := by
  by_cases h : rm.toNat < 6
  · have hv : ∃ m, Spec.Mode.ofNat? rm.toNat = some m := by
      generalize rm.toNat = k at h
      interval_cases k <;> exact ⟨_, rfl⟩
    obtain ⟨m, hm⟩ := hv
    obtain ⟨r, hr, _⟩ := round_dp_correct d dp rm m hm
    exact ⟨r, hr⟩
  · obtain ⟨r, hr, _⟩ := round_dp_invalid_mode d dp rm (by omega)
    exact ⟨r, hr⟩

/-- **C08, Ceil.**  `d.Ceil(dp)` denotes `Spec.ceilDp dp 𝔳[d]`: the least multiple of `10^-dp` that is
    ≥ the operand (−0 for negative operands above −quantum; +Inf when the multiple is too large). -/
theorem ceil_correct (d : Gen.Decimal) (dp : Int64) :
    ∃ r, Gen.Decimal.Ceil d dp = .ok r ∧ (𝔳[r]).same (Spec.ceilDp dp.toInt 𝔳[d]) = true := by
  cases hd : Gen.Decimal.isSpecial d
  · cases hz : Gen.Decimal.IsZero d
    · exact Qz.ceil_finite d dp hd hz
    · exact Sp.Ceil_spec d dp dp.toInt (Or.inr hz)
  · exact Sp.Ceil_spec d dp dp.toInt (Or.inl hd)

example := ceil_correct ⟨12345, 3474527112516337664⟩ 2

/-- **C08, Floor.**  `d.Floor(dp)` denotes `Spec.floorDp dp 𝔳[d]`: the greatest multiple of `10^-dp`
    that is ≤ the operand (+0 for positive operands below the quantum; −Inf when too large). -/
theorem floor_correct (d : Gen.Decimal) (dp : Int64) :
    ∃ r, Gen.Decimal.Floor d dp = .ok r ∧ (𝔳[r]).same (Spec.floorDp dp.toInt 𝔳[d]) = true := by
  cases hd : Gen.Decimal.isSpecial d
  · cases hz : Gen.Decimal.IsZero d
    · exact Qz.floor_finite d dp hd hz
    · exact Sp.Floor_spec d dp dp.toInt (Or.inr hz)
  · exact Sp.Floor_spec d dp dp.toInt (Or.inl hd)

example := floor_correct ⟨12345, 3474527112516337664⟩ 2

/-! ## the package-level functions -/

/-- `Round(d) = d.Round(0, ToNearestAway)` -/
theorem pkg_round (d : Gen.Decimal) : Gen.Round d = Gen.Decimal.Round d 0 1 := Sp.Round0_eq d
/-- `Trunc(d) = d.Round(0, ToZero)` -/
theorem pkg_trunc (d : Gen.Decimal) : Gen.Trunc d = Gen.Decimal.Round d 0 2 := Sp.Trunc0_eq d
/-- `Ceil(d) = d.Ceil(0)` -/
theorem pkg_ceil (d : Gen.Decimal) : Gen.Ceil d = Gen.Decimal.Ceil d 0 := Sp.Ceil0_eq d
/-- `Floor(d) = d.Floor(0)` -/
theorem pkg_floor (d : Gen.Decimal) : Gen.Floor d = Gen.Decimal.Floor d 0 := Sp.Floor0_eq d

theorem pkg_round_correct (d : Gen.Decimal) :
    ∃ r, Gen.Round d = .ok r ∧ (𝔳[r]).same (Spec.quantize 0 .nearestAway 𝔳[d]) = true := by
  rw [pkg_round]; exact round_dp_correct d 0 1 .nearestAway rfl

theorem pkg_trunc_correct (d : Gen.Decimal) :
    ∃ r, Gen.Trunc d = .ok r ∧ (𝔳[r]).same (Spec.quantize 0 .toZero 𝔳[d]) = true := by
  rw [pkg_trunc]; exact round_dp_correct d 0 2 .toZero rfl

theorem pkg_ceil_correct (d : Gen.Decimal) :
    ∃ r, Gen.Ceil d = .ok r ∧ (𝔳[r]).same (Spec.ceilDp 0 𝔳[d]) = true := by
  rw [pkg_ceil]; exact ceil_correct d 0

theorem pkg_floor_correct (d : Gen.Decimal) :
    ∃ r, Gen.Floor d = .ok r ∧ (𝔳[r]).same (Spec.floorDp 0 𝔳[d]) = true := by
  rw [pkg_floor]; exact floor_correct d 0

/-! ## corollaries -/

/-- the sign bit of the operand is the sign bit of the result — also for zero and ±Inf results and for NaN -/
theorem round_signbit (d r : Gen.Decimal) (dp : Int64) (rm : UInt8) (m : Spec.Mode)
    (hm : Spec.Mode.ofNat? rm.toNat = some m) (h : Gen.Decimal.Round d dp rm = .ok r) :
    Gen.Decimal.Signbit r = Gen.Decimal.Signbit d := by
  obtain ⟨r', hr, hs⟩ := round_dp_correct d dp rm m hm
  rw [h] at hr; cases hr
  rw [← Enc.interp_neg, ← Enc.interp_neg, Qz.neg_of_same _ _ hs, Qz.quantize_neg]

theorem ceil_signbit (d r : Gen.Decimal) (dp : Int64) (h : Gen.Decimal.Ceil d dp = .ok r) :
    Gen.Decimal.Signbit r = Gen.Decimal.Signbit d := by
  obtain ⟨r', hr, hs⟩ := ceil_correct d dp
  rw [h] at hr; cases hr
  rw [← Enc.interp_neg, ← Enc.interp_neg, Qz.neg_of_same _ _ hs, Qz.ceilDp_neg]

theorem floor_signbit (d r : Gen.Decimal) (dp : Int64) (h : Gen.Decimal.Floor d dp = .ok r) :
    Gen.Decimal.Signbit r = Gen.Decimal.Signbit d := by
  obtain ⟨r', hr, hs⟩ := floor_correct d dp
  rw [h] at hr; cases hr
  rw [← Enc.interp_neg, ← Enc.interp_neg, Qz.neg_of_same _ _ hs, Qz.floorDp_neg]

/-- the result is NaN exactly when the operand is -/
theorem round_isNaN (d r : Gen.Decimal) (dp : Int64) (rm : UInt8) (m : Spec.Mode)
    (hm : Spec.Mode.ofNat? rm.toNat = some m) (h : Gen.Decimal.Round d dp rm = .ok r) :
    Gen.Decimal.IsNaN r = Gen.Decimal.IsNaN d := by
  obtain ⟨r', hr, hs⟩ := round_dp_correct d dp rm m hm
  rw [h] at hr; cases hr
  rw [← Enc.interp_isNaN, ← Enc.interp_isNaN, Qz.isNaN_of_same _ _ hs, Qz.quantize_isNaN]

theorem ceil_isNaN (d r : Gen.Decimal) (dp : Int64) (h : Gen.Decimal.Ceil d dp = .ok r) :
    Gen.Decimal.IsNaN r = Gen.Decimal.IsNaN d := by
  obtain ⟨r', hr, hs⟩ := ceil_correct d dp
  rw [h] at hr; cases hr
  rw [← Enc.interp_isNaN, ← Enc.interp_isNaN, Qz.isNaN_of_same _ _ hs, Qz.ceilDp_isNaN]

theorem floor_isNaN (d r : Gen.Decimal) (dp : Int64) (h : Gen.Decimal.Floor d dp = .ok r) :
    Gen.Decimal.IsNaN r = Gen.Decimal.IsNaN d := by
  obtain ⟨r', hr, hs⟩ := floor_correct d dp
  rw [h] at hr; cases hr
  rw [← Enc.interp_isNaN, ← Enc.interp_isNaN, Qz.isNaN_of_same _ _ hs, Qz.floorDp_isNaN]

/-- NaN and ±Inf are returned bit for bit (every `dp`, every mode byte — valid or not) -/
theorem round_special (d : Gen.Decimal) (dp : Int64) (rm : UInt8)
    (h : Gen.Decimal.isSpecial d = true) : Gen.Decimal.Round d dp rm = .ok d :=
  Sp.Round_special d dp rm h
theorem ceil_special (d : Gen.Decimal) (dp : Int64)
    (h : Gen.Decimal.isSpecial d = true) : Gen.Decimal.Ceil d dp = .ok d := Sp.Ceil_special d dp h
theorem floor_special (d : Gen.Decimal) (dp : Int64)
    (h : Gen.Decimal.isSpecial d = true) : Gen.Decimal.Floor d dp = .ok d := Sp.Floor_special d dp h

/-- quantising the result again (same `dp`, same mode) does not change its value, class or sign -/
theorem round_idempotent (d : Gen.Decimal) (dp : Int64) (rm : UInt8) (m : Spec.Mode)
    (hm : Spec.Mode.ofNat? rm.toNat = some m) :
    ∃ r r', Gen.Decimal.Round d dp rm = .ok r ∧ Gen.Decimal.Round r dp rm = .ok r' ∧
      (𝔳[r']).same 𝔳[r] = true := by
  obtain ⟨r, hr, h1⟩ := round_dp_correct d dp rm m hm
  obtain ⟨r', hr', h2⟩ := round_dp_correct r dp rm m hm
  refine ⟨r, r', hr, hr', Qz.same_of_same_of_same _ _ _ ?_ h1⟩
  have h3 := Qz.quantize_congr dp.toInt m _ _ h1
  rw [Qz.quantize_idem] at h3
  exact Qz.same_trans _ _ _ h2 h3

theorem ceil_idempotent (d : Gen.Decimal) (dp : Int64) :
    ∃ r r', Gen.Decimal.Ceil d dp = .ok r ∧ Gen.Decimal.Ceil r dp = .ok r' ∧
      (𝔳[r']).same 𝔳[r] = true := by
  obtain ⟨r, hr, h1⟩ := ceil_correct d dp
  obtain ⟨r', hr', h2⟩ := ceil_correct r dp
  refine ⟨r, r', hr, hr', Qz.same_of_same_of_same _ _ _ ?_ h1⟩
  have h3 := Qz.ceilDp_congr dp.toInt _ _ h1
  rw [Qz.ceilDp_idem] at h3
  exact Qz.same_trans _ _ _ h2 h3

theorem floor_idempotent (d : Gen.Decimal) (dp : Int64) :
    ∃ r r', Gen.Decimal.Floor d dp = .ok r ∧ Gen.Decimal.Floor r dp = .ok r' ∧
      (𝔳[r']).same 𝔳[r] = true := by
  obtain ⟨r, hr, h1⟩ := floor_correct d dp
  obtain ⟨r', hr', h2⟩ := floor_correct r dp
  refine ⟨r, r', hr, hr', Qz.same_of_same_of_same _ _ _ ?_ h1⟩
  have h3 := Qz.floorDp_congr dp.toInt _ _ h1
  rw [Qz.floorDp_idem] at h3
  exact Qz.same_trans _ _ _ h2 h3

end Props.C08
