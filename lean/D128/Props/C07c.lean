/-
  Property C07 (and the `%v` clause of C06) — the `fmt.Formatter` entry point.

  `Gen.Decimal.Format` and `Gen.Decimal.writeSpecial` (generated in `D128/Gen/FormatFmt.lean` from
  /repo/format.go) over the value model `Go.FmtState` of `fmt.State` (`D128/Go/Fmt.lean`: the five flags
  `Flag` reports, the width and precision options, and `out`, what has been written so far; `Write`
  appends).  How package fmt FILLS a State from a verb string is runtime and outside the model; the
  theorems are therefore about EVERY state (all 32 flag subsets, width and precision present or absent)
  and every verb rune.  Statements only; proofs in `D128/Proofs/FmtFormat{Special,Main,Sprintf}.lean`.

  * `writeSpecial_spec`     : NaN / ±Inf with sign flags, blank padding; the two 3-blanks-per-turn loops
  * `format_state_spec`     : finite `d`, verbs `e E f F g G`: `st.out ++ Spec.fmtSpec (flags, 0 dropped when -)`
  * `format_state_v`, `format_state_v_string` : verb `v`: the shortest form of C06 = `d.String()`; flags, width,
                              precision ignored
  * `format_state_special`, `format_state_nan`, `format_state_inf` : NaN / ±Inf, every verb
  * `format_state_other`, `format_state_nonascii` : finite `d`, any other verb rune (below 128 / from 128 on):
                              the unmodelled `fmt.Appendf` arm
  * `format_state_total`    : every `d`, every verb rune, every state package fmt can produce (width and
                              precision at most 10^6): `.ok` with only `out` extended, or that arm
  * `format_state_total_prec56` : the same with the bounds the proof needs (width `< 2^62`, precision `< 2^56`)
                              and for negative "runes" too
  * `sprintf_eq_append`     : on the state of a verb string, `Format` writes what `Decimal.Append` returns
                              (C07, last clause)
  * `format_negative_width_panics` : why `0 ≤ w` is assumed for finite values
  * `Ex.format_verb_not_truncated` : regression for the FINDING below

  FINDING, FIXED in /repo commit 81ce116: `Format` used to store `byte(verb)` before looking at the verb, so
  a rune ≥ 256 whose low byte is one of `e E f F g G v` was formatted as that verb: `fmt.Sprintf("%ť", d)`
  (U+0165 = 256 + 101) printed `9.997500e+02` for 999.75, where a float64 prints `%!ť(float64=999.75)`; U+0176
  (256 + 118) went into the `v` arm.  Now a finite `d` with `verb ≥ 0x80` goes straight to the
  `%!verb(decimal128.Decimal=…)` notice (`format_state_nonascii`, `Ex.format_verb_not_truncated`), and below
  128 the conversion to a byte is the identity, so the theorems speak about the rune itself.
  (A NEGATIVE `verb` — no rune; package fmt passes Unicode scalar values or U+FFFD — is still narrowed to its low
  byte; the `Ly.` lemmas and `format_state_total_prec56` cover that case too, the theorems here assume
  `0 ≤ verb` where it matters.)

  Remarks (no defect claimed):
  * `padZero := Flag('0') && !Flag('-')` is computed by `Format` itself, so the `0`-with-`-` defect of
    `digits.pad` (`pad_zero_minus` in C07b) cannot be reached through `Format`, whatever the state.
  * `%v` on a finite `d` ignores flags, width and precision (`%12v`, `%+v` print the bare shortest form;
    a float64 would be padded / signed).  C06 and C07 claim nothing else.
  * NaN / ±Inf print their text under EVERY verb (also `%d`, also runes ≥ 128), never the `%!verb(…)` notice.
  * a NEGATIVE width (package fmt never hands one over: a negative `*` width becomes the `-` flag): for NaN /
    ±Inf it counts as no width down to −2^62 (`format_state_special`; near `MinInt64` the subtraction
    `width − len` wraps and the padding loop runs 2^63/3 times); for a finite `d` `digits.fmtF` panics in
    `make` when the size hint `2 + ndig + exp` is negative too (`format_negative_width_panics`: `Format` of
    1e-6000 with `wid = some (-5)`, verb `f`, is `.error Go.Panic.makeslice`).  Hence the hypothesis `0 ≤ w`.
  * why a bound on the precision stays (`format_state_total` states the one package fmt enforces, 10^6:
    fmt/print.go `tooLarge`, "%!(BADPREC)"; the proofs need `< 2^56`): the output has at least `prec` bytes,
    so beyond any realistic bound "does not panic" is not what happens (the run-time fails to allocate); and
    the `int` arithmetic of `format` (`prec + 1` in the `e` arm, `ndig + exp + prec` in the `f` arm) wraps
    for `prec` near 2^63, after which `digits.round` is asked for a negative number of digits.  `format_spec`
    of C07b is proved below `2^56`, where none of this can occur.
-/
import D128.Proofs.FmtFormatNeg
import D128.Props.C07b
set_option autoImplicit false

namespace Props.C07

/-- the value a bit pattern denotes -/
local notation "𝔳[" d "]" => Spec.interp (Gen.Decimal.lo d) (Gen.Decimal.hi d)

/-! ## A. `writeSpecial` -/

/-- **`writeSpecial`** writes `NaN` / `+NaN` / ` NaN` / `-Inf` / `+Inf` / ` Inf` (by the sign flags),
blank-padded to the width — on the right for `padRight`, else on the left; there is no zero padding.
For every state `f` (nothing is assumed about what `f.out` already holds) the result is `f` with the
text appended to `out` and every other field unchanged; no panic; both padding loops (three blanks per
turn, then a tail of two, one or no blank) terminate with exactly `W − len` blanks written. -/
theorem writeSpecial_spec (d : Gen.Decimal) (f : Go.FmtState) (width : Int64)
    (printSign padSign padRight : Bool) (W : Nat) (hW : width.toInt = W) (hW' : W < 2 ^ 62) :
    ∃ r, Gen.Decimal.writeSpecial d f width printSign padSign padRight =
        .ok { f with out := f.out ++ r } ∧
      r = Ly.specialBytes (Ly.specialValue d printSign padSign) W padRight ∧
      Ly.bstr r = Ly.specialPad
        (Ly.specialStr (Gen.Decimal.IsNaN d) (Gen.Decimal.Signbit d) printSign padSign) W padRight :=
  Ly.writeSpecial_spec d f width printSign padSign padRight W hW hW'

/-! ## B. finite `d`, the six float verbs -/

/-- **`Format` on a finite `d = (−1)^neg · c · 10^e`, verbs `e E f F g G`.**  For EVERY state `st` — all
32 flag subsets, width present (`0 ≤ w < 2^62`) or absent (= 0), precision present (`< 2^56`; a
negative one, which fmt never produces, counts as absent) or absent — `Format` returns `st` with
`Spec.fmtSpec` appended to `out`: exactly what fmt prints for a float64 of the same value under the
flags of the state with `0` dropped when `-` is set (C07b `format_spec`: half-even rounding, the `%g`
switch-over after rounding, `#`, sign flags, width).  No other field changes; no panic. -/
theorem format_state_spec (d : Gen.Decimal) (st : Go.FmtState) (verb : Int32)
    (neg : Bool) (c : Nat) (e : Int) (hfin : 𝔳[d] = .fin neg c e)
    (hv : verb = 101 ∨ verb = 69 ∨ verb = 102 ∨ verb = 70 ∨ verb = 103 ∨ verb = 71)
    (hprec : ∀ p, st.prec = some p → p.toInt < 2 ^ 56)
    (hwid : ∀ w, st.wid = some w → 0 ≤ w.toInt ∧ w.toInt < 2 ^ 62) :
    ∃ r, Gen.Decimal.Format d st verb = .ok { st with out := st.out ++ r } ∧
      Ly.bstr r = Spec.fmtSpec
        { plus := st.plus, minus := st.minus, sharp := st.sharp, space := st.space,
          zero := st.zero && !st.minus }
        (Char.ofNat verb.toInt.toNat)
        (match st.prec with
          | some p => if p.toInt < 0 then none else some p.toInt.toNat
          | none => none)
        (some (match st.wid with | some w => w.toInt.toNat | none => 0))
        neg (Spec.sliceOf c e) := by
  obtain ⟨hsp, h1, h2, h3⟩ := Emit.fin_fields d neg c e hfin
  have hlt : verb < 128 := by rcases hv with h | h | h | h | h | h <;> subst h <;> decide
  have hv' : (Go.conv verb : UInt8) = 101 ∨ (Go.conv verb : UInt8) = 69 ∨
      (Go.conv verb : UInt8) = 102 ∨ (Go.conv verb : UInt8) = 70 ∨ (Go.conv verb : UInt8) = 103 ∨
      (Go.conv verb : UInt8) = 71 := by
    rcases hv with h | h | h | h | h | h <;> subst h <;> decide
  have hc : Ly.chr (Go.conv verb : UInt8) = Char.ofNat verb.toInt.toNat := by
    rcases hv with h | h | h | h | h | h <;> subst h <;> rfl
  obtain ⟨r, hr, hs⟩ := Ly.format_state_spec d st verb hsp hv' hlt hprec hwid
  refine ⟨r, hr, ?_⟩
  rw [hs, hc, h1, show Ly.coefOf d = c from h2, show Ly.expoOf d = e from h3]
  have : (Ly.widOf st).toInt.toNat = (match st.wid with | some w => w.toInt.toNat | none => 0) := by
    unfold Ly.widOf; cases st.wid <;> rfl
  rw [this]; rfl

/-! ## C. finite `d`, the verb `v` -/

/-- **`Format` on a finite `d`, verb `v`**: the shortest form — `Spec.shortestG`, C06's
`%v`: positional for `−4 ≤ x < 6`, exponent form `d.ddde±XX` otherwise, no digit more than the
coefficient has — is appended, at most 12500 bytes, WHATEVER flags, width and precision the state
carries (no hypothesis on `st`): they are ignored. -/
theorem format_state_v (d : Gen.Decimal) (st : Go.FmtState) (verb : Int32)
    (neg : Bool) (c : Nat) (e : Int) (hfin : 𝔳[d] = .fin neg c e)
    (hv : verb = 118) :
    ∃ r, Gen.Decimal.Format d st verb = .ok { st with out := st.out ++ r } ∧
      Ly.bstr r = Spec.shortestG neg (Spec.sliceOf c e) 'e' ∧ r.size ≤ 12500 := by
  obtain ⟨hsp, h1, h2, h3⟩ := Emit.fin_fields d neg c e hfin
  subst hv
  obtain ⟨r, hr, hs, hsz⟩ := Ly.format_state_v d st 118 hsp (by decide) (by decide)
  refine ⟨r, hr, ?_, hsz⟩
  rw [hs, h1, show Ly.coefOf d = c from h2, show Ly.expoOf d = e from h3]

/-- … and these are the bytes of `d.String()` -/
theorem format_state_v_string (d : Gen.Decimal) (st : Go.FmtState) (verb : Int32)
    (hfin : Gen.Decimal.isSpecial d = false) (hv : verb = 118) :
    ∃ r, Gen.Decimal.String d = .ok r ∧
      Gen.Decimal.Format d st verb = .ok { st with out := st.out ++ r } := by
  subst hv
  exact Ly.format_state_v_string d st 118 hfin (by decide) (by decide)

/-! ## D. NaN and the infinities -/

/-- **`Format` on NaN / ±Inf, EVERY verb** (known or not): the text `NaN` / `+NaN` / ` NaN`, `+Inf` /
` Inf` / `-Inf` by the sign flags `+` and space, blank-padded to the width — on the right for `-`, else
on the left.  `st.zero` does not occur on the right-hand side: there is NO zero padding (as for a
float64); neither do `st.sharp` and the precision.  The verb `v`
prints the bare text, without sign flags and width.  The width may be anything in `(−2^62, 2^62)`; a
negative one counts as none (`Int.toNat`). -/
theorem format_state_special (d : Gen.Decimal) (st : Go.FmtState) (verb : Int32)
    (hsp : Gen.Decimal.isSpecial d = true)
    (hwid : verb ≠ 118 → ∀ w, st.wid = some w → -2 ^ 62 < w.toInt ∧ w.toInt < 2 ^ 62) :
    ∃ r, Gen.Decimal.Format d st verb = .ok { st with out := st.out ++ r } ∧
      Ly.bstr r =
        (if verb = 118 then
          Ly.specialStr (Gen.Decimal.IsNaN d) (Gen.Decimal.Signbit d) false false
        else
          Ly.specialPad (Ly.specialStr (Gen.Decimal.IsNaN d) (Gen.Decimal.Signbit d) st.plus st.space)
            (match st.wid with | some w => w.toInt.toNat | none => 0) st.minus) := by
  obtain ⟨r, hr, hs⟩ := Ly.format_state_special d st verb hsp hwid
  refine ⟨r, hr, ?_⟩
  have : (Ly.widOf st).toInt.toNat = (match st.wid with | some w => w.toInt.toNat | none => 0) := by
    unfold Ly.widOf; cases st.wid <;> rfl
  rw [hs, this]

/-- NaN (quiet or signalling, either sign, any payload) -/
theorem format_state_nan (d : Gen.Decimal) (st : Go.FmtState) (verb : Int32) (n : Bool) (p : UInt64)
    (h : 𝔳[d] = .nan n p)
    (hwid : verb ≠ 118 → ∀ w, st.wid = some w → -2 ^ 62 < w.toInt ∧ w.toInt < 2 ^ 62) :
    ∃ r, Gen.Decimal.Format d st verb = .ok { st with out := st.out ++ r } ∧
      Ly.bstr r =
        (if verb = 118 then "NaN".toList
        else Ly.specialPad
          (if st.plus then "+NaN".toList else if st.space then " NaN".toList else "NaN".toList)
          (match st.wid with | some w => w.toInt.toNat | none => 0) st.minus) := by
  have h1 := Enc.interp_isNaN d
  rw [h] at h1
  have hn : Gen.Decimal.IsNaN d = true := h1.symm
  obtain ⟨r, hr, hs⟩ := format_state_special d st verb (by rw [Enc.isSpecial_iff, hn]; rfl) hwid
  refine ⟨r, hr, ?_⟩
  rw [hs, hn]; rfl

/-- the infinities -/
theorem format_state_inf (d : Gen.Decimal) (st : Go.FmtState) (verb : Int32) (n : Bool)
    (h : 𝔳[d] = .inf n)
    (hwid : verb ≠ 118 → ∀ w, st.wid = some w → -2 ^ 62 < w.toInt ∧ w.toInt < 2 ^ 62) :
    ∃ r, Gen.Decimal.Format d st verb = .ok { st with out := st.out ++ r } ∧
      Ly.bstr r =
        (if verb = 118 then (if n then "-Inf".toList else "+Inf".toList)
        else Ly.specialPad
          (if n then "-Inf".toList else if st.space && !st.plus then " Inf".toList else "+Inf".toList)
          (match st.wid with | some w => w.toInt.toNat | none => 0) st.minus) := by
  have h1 := Enc.interp_isNaN d
  have h2 := Enc.interp_isInf d
  have h3 := Enc.interp_neg d
  rw [h] at h1 h2 h3
  have hn : Gen.Decimal.IsNaN d = false := h1.symm
  have hi : Gen.Decimal.isInf d = true := h2.symm
  have hs : Gen.Decimal.Signbit d = n := h3.symm
  obtain ⟨r, hr, hstr⟩ := format_state_special d st verb (by rw [Enc.isSpecial_iff, hn, hi]; rfl) hwid
  refine ⟨r, hr, ?_⟩
  rw [hstr, hn, hs]
  cases n <;> rfl

/-! ## E. any other verb -/

/-- **`Format` on a finite `d` with any other verb rune** (none of `e E f F g G v`; `0 ≤ verb`: a rune)
ends in the one arm that is not modelled — `fmt.Appendf` of the `%!verb(decimal128.Decimal=…)` notice —
after `d.String()` has returned normally: the library's own code does not panic.  Every state. -/
theorem format_state_other (d : Gen.Decimal) (st : Go.FmtState) (verb : Int32)
    (hfin : Gen.Decimal.isSpecial d = false) (h0 : 0 ≤ verb.toInt)
    (hk : ¬ (verb = 101 ∨ verb = 69 ∨ verb = 102 ∨ verb = 70 ∨ verb = 103 ∨ verb = 71 ∨ verb = 118)) :
    Gen.Decimal.Format d st verb = .error (Go.Panic.unmodelled "fmt.Appendf") := by
  by_cases hge : verb ≥ 128
  · exact Ly.format_state_nonascii d st verb hfin hge
  · have hlt : verb < 128 := Int32.not_le.mp hge
    have h1 : verb.toInt < 128 := by
      have := Int32.lt_iff_toInt_lt.mp hlt
      rwa [show (128 : Int32).toInt = 128 from by decide] at this
    exact Ly.format_state_other d st verb hfin
      (fun hkn => hk ((Ly.knownVerb_rune verb h0 (by omega)).mp hkn)) hlt

/-- … in particular every verb outside ASCII (regression for the FINDING of the header: the rune is not
narrowed to a byte any more) -/
theorem format_state_nonascii (d : Gen.Decimal) (st : Go.FmtState) (verb : Int32)
    (hfin : Gen.Decimal.isSpecial d = false) (hge : verb ≥ 128) :
    Gen.Decimal.Format d st verb = .error (Go.Panic.unmodelled "fmt.Appendf") :=
  Ly.format_state_nonascii d st verb hfin hge

/-! ## F. totality -/

/-- **`Format` does not panic** (C20 for the Formatter), with the bounds the proof needs: every bit pattern
`d` (finite, NaN, infinite), every `verb` (negative values included), every state whose width — if present —
is in `[0, 2^62)` and whose precision — if present — is below `2^56`.  Either `Ly.appendfArm d verb` (`d`
finite and `verb ≥ 128` or the byte of `verb` none of `e E f F g G v`): then the outcome is exactly the
unmodelled `fmt.Appendf` arm; or `Format` returns the state with `out` extended and nothing else changed. -/
theorem format_state_total_prec56 (d : Gen.Decimal) (st : Go.FmtState) (verb : Int32)
    (hwid : ∀ w, st.wid = some w → 0 ≤ w.toInt ∧ w.toInt < 2 ^ 62)
    (hprec : ∀ p, st.prec = some p → p.toInt < 2 ^ 56) :
    (Ly.appendfArm d verb →
      Gen.Decimal.Format d st verb = .error (Go.Panic.unmodelled "fmt.Appendf")) ∧
    (¬ Ly.appendfArm d verb →
      ∃ r, Gen.Decimal.Format d st verb = .ok { st with out := st.out ++ r }) :=
  Ly.format_state_total_prec56 d st verb hwid hprec

/-- **`format_state_total`: `Format` does not panic on any State package fmt can produce.**  Package fmt
(fmt/print.go, `tooLarge`; `%!(BADWIDTH)` / `%!(BADPREC)`) hands over a width and a precision only if they are
in `[0, 10^6]` — a negative `*` width has become the `-` flag, a negative `*` precision is dropped — and a verb
that is a rune (`0 ≤ verb`); these are the hypotheses.  For every bit pattern `d`, all 32 flag subsets and
every such verb: if `d` is finite and the verb is none of `e E f F g G v`, the outcome is the unmodelled
`fmt.Appendf` arm (the `%!verb(…)` notice; `d.String()` has returned); otherwise `Format` returns the state
with `out` extended and no other field changed.  (Why a bound on the precision is there at all: header.) -/
theorem format_state_total (d : Gen.Decimal) (st : Go.FmtState) (verb : Int32)
    (hverb : 0 ≤ verb.toInt)
    (hwid : ∀ w, st.wid = some w → 0 ≤ w.toInt ∧ w.toInt ≤ 1000000)
    (hprec : ∀ p, st.prec = some p → 0 ≤ p.toInt ∧ p.toInt ≤ 1000000) :
    ((Gen.Decimal.isSpecial d = false ∧
        ¬ (verb = 101 ∨ verb = 69 ∨ verb = 102 ∨ verb = 70 ∨ verb = 103 ∨ verb = 71 ∨ verb = 118)) →
      Gen.Decimal.Format d st verb = .error (Go.Panic.unmodelled "fmt.Appendf")) ∧
    (¬ (Gen.Decimal.isSpecial d = false ∧
        ¬ (verb = 101 ∨ verb = 69 ∨ verb = 102 ∨ verb = 70 ∨ verb = 103 ∨ verb = 71 ∨ verb = 118)) →
      ∃ r, Gen.Decimal.Format d st verb = .ok { st with out := st.out ++ r }) := by
  constructor
  · rintro ⟨hfin, hk⟩
    exact format_state_other d st verb hfin hverb hk
  · intro hnot
    refine (format_state_total_prec56 d st verb
      (fun w hw => by have := hwid w hw; omega) (fun p hp => by have := hprec p hp; omega)).2 ?_
    rintro ⟨hfin, harm⟩
    apply hnot
    refine ⟨hfin, fun hk => ?_⟩
    have hlt : verb < 128 := by rcases hk with h | h | h | h | h | h | h <;> subst h <;> decide
    rcases harm with hge | hnk
    · exact absurd hge (Int32.not_le.mpr hlt)
    · have h1 : verb.toInt < 128 := by
        have := Int32.lt_iff_toInt_lt.mp hlt
        rwa [show (128 : Int32).toInt = 128 from by decide] at this
      exact hnk ((Ly.knownVerb_rune verb hverb (by omega)).mpr hk)

/-- **Why the width must not be negative** (no State of package fmt has a negative width; a hand-made
`fmt.State` can): for a finite `d` with `|d| < 10^-3` (`dp < −2`, `dp` the position of the decimal
point relative to the first digit) whose digits are all rounded away by the precision in effect
(`dp + prec < 0`, `prec` = 6 when absent), verbs `f F`, a present negative width makes `Format` panic in
`make([]byte, 0, sizeHint)` of `digits.fmtF`: the size hint `2 + ndig + exp` is negative and the
negative width does not repair it. -/
theorem format_negative_width_panics (d : Gen.Decimal) (st : Go.FmtState) (verb : Int32)
    (neg : Bool) (c : Nat) (e : Int) (hfin : 𝔳[d] = .fin neg c e)
    (hv : verb = 102 ∨ verb = 70)
    (w : Int64) (hw : st.wid = some w) (hneg : w.toInt < 0)
    (hprec : ∀ p, st.prec = some p → p.toInt < 2 ^ 56)
    (hdp : (Spec.sliceOf c e).dp < -2)
    (hdp' : (Spec.sliceOf c e).dp + ((Ly.precSt st).getD 6 : Nat) < 0) :
    Gen.Decimal.Format d st verb = .error Go.Panic.makeslice := by
  obtain ⟨hsp, _, h2, h3⟩ := Emit.fin_fields d neg c e hfin
  exact Ly.format_neg_width_panic d st verb hsp
    (by rcases hv with h | h <;> subst h <;> decide) (by rcases hv with h | h <;> subst h <;> decide)
    w hw hneg hprec
    (by rw [show Ly.coefOf d = c from h2, show Ly.expoOf d = e from h3]; exact hdp)
    (by rw [show Ly.coefOf d = c from h2, show Ly.expoOf d = e from h3]; exact hdp')

/-! ## G. `fmt.Sprintf("%" + spec, d)` = `d.Append(nil, spec)` -/

/-- **`Format` on the state of a verb string writes what `Decimal.Append` returns for that string**
(C07, last clause; how package fmt parses the string into a State is runtime).  Every bit pattern `d`,
every byte string `spec` with a verb, `a := Dg.parseSpec spec` its parse (= `parseFormat`,
`parseFormat_spec`), and every state `st` that carries what `a` says: the flags (`zero` either kept
or cleared when `-` is present — fmt of Go 1.23 keeps it, Go ≤ 1.22 cleared it; `Format` drops it
itself), the width present or absent (absent parses to 0), the precision present or absent (absent
parses to −1), and the verb rune IS the verb byte (`verb.toInt = a.verb.toNat`: an ASCII verb; for a
byte ≥ 128 — which package fmt would have decoded into a different rune — the equation holds too, both
sides being the unmodelled arm for a finite `d`).  Then, as an equation of outcomes,
`Format d st verb = (Append d st.out spec).map (fun r => { st with out := r })`: the same bytes, byte
for byte, after what `st.out` held; and the unmodelled `fmt.Appendf` arm is reached by both or by
neither. -/
theorem sprintf_eq_append (d : Gen.Decimal) (st : Go.FmtState) (verb : Int32) (spec : Go.Bytes)
    (hs : spec.size < 2 ^ 63) (hb : st.out.size < 2 ^ 61)
    (hplus : st.plus = (Dg.parseSpec spec.toList).printSign)
    (hsharp : st.sharp = (Dg.parseSpec spec.toList).forceDP)
    (hspace : st.space = (Dg.parseSpec spec.toList).padSign)
    (hminus : st.minus = (Dg.parseSpec spec.toList).padRight)
    (hzero : (st.zero && !st.minus) = (Dg.parseSpec spec.toList).padZero)
    (hwid : (st.wid = none ∧ (Dg.parseSpec spec.toList).wid = 0) ∨
      st.wid = some (Dg.parseSpec spec.toList).wid)
    (hprec : (st.prec = none ∧ (Dg.parseSpec spec.toList).prec = -1) ∨
      st.prec = some (Dg.parseSpec spec.toList).prec)
    (hverb : verb.toInt = (Dg.parseSpec spec.toList).verb.toNat)
    (hv0 : (Dg.parseSpec spec.toList).verb ≠ 0) :
    Gen.Decimal.Format d st verb =
      (Gen.Decimal.Append d st.out spec >>= fun r => pure { st with out := r }) :=
  Ly.sprintf_eq_append d st verb spec hs hb
    ⟨hplus, hsharp, hspace, hminus, hzero, hwid, hprec⟩ hverb hv0

/-! ## examples: the hypotheses are satisfiable, the conclusions are the expected strings -/

namespace Ex

/-- `%-012g` of 999.75 after an `x` already in the buffer: `0` is dropped because of `-`, blanks on
the right (this is the input on which `digits.pad` alone would print `x999.75000000`) -/
example : ∃ r, Gen.Decimal.Format d999_75
      { minus := true, zero := true, wid := some 12, out := #[120] } 103 =
        .ok { minus := true, zero := true, wid := some 12, out := #[120] ++ r } ∧
      Ly.bstr r = "999.75      ".toList := by
  obtain ⟨r, hr, hs⟩ := format_state_spec d999_75
    { minus := true, zero := true, wid := some 12, out := #[120] } 103 false 99975 (-2)
    (by decide) (by decide) (by decide) (by decide)
  exact ⟨r, hr, by rw [hs]; decide⟩

/-- `%+09.3g` of 999.75 through `Format` -/
example : ∃ r, Gen.Decimal.Format d999_75
      { plus := true, zero := true, wid := some 9, prec := some 3 } 103 =
        .ok { plus := true, zero := true, wid := some 9, prec := some 3, out := #[] ++ r } ∧
      Ly.bstr r = "+0001e+03".toList := by
  obtain ⟨r, hr, hs⟩ := format_state_spec d999_75
    { plus := true, zero := true, wid := some 9, prec := some 3 } 103 false 99975 (-2)
    (by decide) (by decide) (by decide) (by decide)
  exact ⟨r, hr, by rw [hs]; decide⟩

/-- `%+12.1v` of 999.75: flags, width and precision are ignored -/
example : ∃ r, Gen.Decimal.Format d999_75 { plus := true, wid := some 12, prec := some 1 } 118 =
        .ok { plus := true, wid := some 12, prec := some 1, out := #[] ++ r } ∧
      Ly.bstr r = "999.75".toList := by
  obtain ⟨r, hr, hs, _⟩ := format_state_v d999_75 { plus := true, wid := some 12, prec := some 1 }
    118 false 99975 (-2) (by decide) (by decide)
  exact ⟨r, hr, by rw [hs]; decide⟩

/-- `%08f` of −Inf: blanks, not zeros -/
example : ∃ r, Gen.Decimal.Format dNegInf { wid := some 8, zero := true } 102 =
        .ok { wid := some 8, zero := true, out := #[] ++ r } ∧ Ly.bstr r = "    -Inf".toList := by
  obtain ⟨r, hr, hs⟩ := format_state_inf dNegInf { wid := some 8, zero := true } 102 true
    (by decide) (by decide)
  exact ⟨r, hr, by rw [hs]; decide⟩

/-- `%-+8d` of −Inf: an unknown verb prints the text all the same; `%8v` is not padded; the rune
U+0176 is not `v`: the width is used (an infinity prints under every verb) -/
example : ∃ r, Gen.Decimal.Format dNegInf { minus := true, plus := true, wid := some 8 } 100 =
        .ok { minus := true, plus := true, wid := some 8, out := #[] ++ r } ∧
      Ly.bstr r = "-Inf    ".toList := by
  obtain ⟨r, hr, hs⟩ := format_state_inf dNegInf { minus := true, plus := true, wid := some 8 } 100
    true (by decide) (by decide)
  exact ⟨r, hr, by rw [hs]; decide⟩

example : ∃ r, Gen.Decimal.Format dNegInf { wid := some 8 } 118 =
        .ok { wid := some 8, out := #[] ++ r } ∧ Ly.bstr r = "-Inf".toList := by
  obtain ⟨r, hr, hs⟩ := format_state_inf dNegInf { wid := some 8 } 118 true (by decide)
    (fun h => absurd rfl h)
  exact ⟨r, hr, by rw [hs]; decide⟩

example : ∃ r, Gen.Decimal.Format dNegInf { wid := some 8 } 374 =
        .ok { wid := some 8, out := #[] ++ r } ∧ Ly.bstr r = "    -Inf".toList := by
  obtain ⟨r, hr, hs⟩ := format_state_inf dNegInf { wid := some 8 } 374 true (by decide) (by decide)
  exact ⟨r, hr, by rw [hs]; decide⟩

/-- `writeSpecial`: a NaN with the space flag to width 9 on the right: 4 + 3 + 2 bytes -/
example : ∃ r, Gen.Decimal.writeSpecial ⟨0, 0x7C00000000000000⟩ { out := #[120] } 9 false true true =
        .ok { out := #[120] ++ r } ∧ Ly.bstr r = " NaN     ".toList := by
  obtain ⟨r, hr, _, hs⟩ := writeSpecial_spec ⟨0, 0x7C00000000000000⟩ { out := #[120] } 9 false true
    true 9 (by decide) (by decide)
  exact ⟨r, hr, by rw [hs]; decide⟩

/-- `%d` of 999.75: the unmodelled arm -/
example : Gen.Decimal.Format d999_75 { plus := true, wid := some 12 } 100 =
    .error (Go.Panic.unmodelled "fmt.Appendf") :=
  format_state_other d999_75 _ 100 (by decide) (by decide) (by decide)

/-- the largest width and precision package fmt hands over -/
example := (format_state_total d999_75 { sharp := true, wid := some 1000000, prec := some 1000000 }
  71 (by decide) (by decide) (by decide)).2 (fun h => h.2 (by decide))

/-- 1e-6000 -/
def d1em6000 : Gen.Decimal := Gen.compose false (U128.ofNat 1) (Int16.ofInt (-6000 + 6176))

/-- `Format` of 1e-6000 on a hand-made state with width −5, verb `f`: `panic: makeslice: cap out of range` -/
example : Gen.Decimal.Format d1em6000 { wid := some (-5) } 102 = .error Go.Panic.makeslice :=
  format_negative_width_panics d1em6000 { wid := some (-5) } 102 false 1 (-6000) (by decide)
    (by decide) (-5) rfl (by decide) (by decide) (by decide) (by decide)

/-- **Regression for the FINDING of the header** (fixed in /repo 81ce116): `fmt.Sprintf("%ť", d)` (U+0165 =
357 = 256 + 101) and U+0176 (374 = 256 + 118) of 999.75 used to print the `%e` / `%v` text
(`9.997500e+02`, `999.75`); now both end in the `%!verb(decimal128.Decimal=999.75)` notice, the
unmodelled `fmt.Appendf` arm, like every other unknown verb. -/
theorem format_verb_not_truncated :
    Gen.Decimal.Format d999_75 {} 357 = .error (Go.Panic.unmodelled "fmt.Appendf") ∧
    Gen.Decimal.Format d999_75 {} 374 = .error (Go.Panic.unmodelled "fmt.Appendf") :=
  ⟨format_state_nonascii d999_75 {} 357 (by decide) (by decide),
   format_state_nonascii d999_75 {} 374 (by decide) (by decide)⟩

/-- `fmt.Sprintf("x%-012.2e", d)`: the state fmt of Go 1.23 builds (`zero` kept) and the one of Go ≤ 1.22
(`zero` cleared) both give what `d.Append([]byte("x"), "-012.2e")` returns -/
example : ∀ z : Bool, ∃ r, Gen.Decimal.Format d999_75
      { minus := true, zero := z, wid := some 12, prec := some 2, out := #[120] } 101 =
        .ok { minus := true, zero := z, wid := some 12, prec := some 2, out := r } ∧
      Ly.bstr r = "x1.00e+03    ".toList := by
  intro z
  obtain ⟨r, hr, hs⟩ := decimal_append_spec d999_75 #[120] "-012.2e".toUTF8.data false 99975 (-2)
    (by decide) (by decide) (by decide) (by decide)
  refine ⟨r, ?_, by rw [hs]; decide⟩
  cases z
  all_goals
    rw [sprintf_eq_append d999_75 _ 101 "-012.2e".toUTF8.data (by decide) (by decide) (by decide)
      (by decide) (by decide) (by decide) (by decide) (Or.inr (by decide)) (Or.inr (by decide))
      (by decide) (by decide)]
    show (Gen.Decimal.Append d999_75 #[120] "-012.2e".toUTF8.data >>= _) = _
    rw [hr]; rfl

/-- `fmt.Sprintf("%q", d)`: both sides end in the unmodelled arm -/
example : Gen.Decimal.Format d999_75 { wid := some 8, prec := some 3 } 113 =
    (Gen.Decimal.Append d999_75 #[] "8.3q".toUTF8.data >>= fun r =>
      pure { wid := some 8, prec := some 3, out := r }) :=
  sprintf_eq_append d999_75 { wid := some 8, prec := some 3 } 113 "8.3q".toUTF8.data (by decide)
    (by decide) (by decide) (by decide) (by decide) (by decide) (by decide) (Or.inr (by decide))
    (Or.inr (by decide)) (by decide) (by decide)

end Ex

end Props.C07
