/-
  C05 — the number parser (scan.go: `parse`, `parseNumber`).

  All theorems are about the generated definitions `Gen.parseNumber` / `Gen.parse`.
  The only hypothesis is `hsz : d.size < 2^63` (`Go.len` converts the size to `Int64`); that the call of
  `reduce128` returns (non-zero significand) is `D128.Proofs.Total.reduce128_total`.
  The value of every accepted numeral and the headline `parse` = specification are in `D128/Props/C05Value.lean`.

  * `Props.C05.parseNumber_total`   parseNumber terminates, never panics, error ∈ {nil, syntax, range}
  * `Props.C05.parse_total`         same for parse with the translated error values
  * `Props.C05.parse_names`         (optionally signed) Inf / Infinity / NaN in any case
  * `Props.C05.parseNumber_syntax_iff`  the accepted language is exactly `Spec.readNumber`
  * `Props.C05.parse_syntax_iff`    the same for `parse` (sign, names, numerals): `Spec.readLiteral true true`
  * `Props.C05.parseNumber_value_canonical`  canonical numerals (≤ 19 significand digits, no separators):
                                    the exact literal value of the specification is what is handed to
                                    `reduce128` (`sig = ⟨m,0⟩`, `exp = e + 6176`, `trunc = 0`) and composed
-/
import D128.Proofs.ParseTop
import D128.Proofs.ParseGrammar
import D128.Proofs.ParseValueSpec
import D128.Proofs.ParseLiteral

namespace Props.C05

open Parse

/-- the bytes of the input read as characters (`Char.ofNat` of each byte) -/
abbrev chars (d : Go.Bytes) : List Char := d.toList.map Parse.toChar

/-- **C05.1a** `parseNumber` terminates without panic (in particular: no index out of range) and
    returns `nil`, `parseNumberSyntaxError` or `parseNumberRangeError`. -/
theorem parseNumber_total (g : Globals) (d : Go.Bytes) (neg sepallowed : Bool)
    (hsz : d.size < 2^63) :
    ∃ r e, Gen.parseNumber g d neg sepallowed = .ok (r, e) ∧
      (e = .nil ∨ e = .parseNumberSyntaxError ∨ e = .parseNumberRangeError) :=
  Parse.parseNumber_total' g d neg sepallowed hsz

/-- **C05.1b** `parse` terminates without panic and returns `nil`, `parseSyntaxError` or
    `parseRangeError`. -/
theorem parse_total (g : Globals) (d : Go.Bytes) (op : UInt64)
    (hsz : d.size < 2^63) :
    ∃ r e, Gen.parse g d op = .ok (r, e) ∧
      (e = .nil ∨ e = .parseSyntaxError ∨ e = .parseRangeError) := by
  rw [Parse.parse_eq g d op hsz]
  exact Parse.parseM_total g op d.toList (by simpa using hsz)

/-- **C05.3** the special names: whenever the specification reads the input as ±Inf / ±Infinity
    (any case) `parse` returns `inf neg`, and for (optionally signed) NaN it returns `nan op 0 0`;
    both with a `nil` error. -/
theorem parse_names (g : Globals) (d : Go.Bytes) (op : UInt64) (hsz : d.size < 2^63) :
    (∀ neg, Spec.readLiteral true true (chars d) = some (.inf neg) →
        Gen.parse g d op = .ok (Gen.inf neg, Go.Err.nil)) ∧
    (∀ signed, Spec.readLiteral true true (chars d) = some (.nan signed) →
        Gen.parse g d op = .ok (Gen.nan op 0 0, Go.Err.nil)) := by
  rw [Parse.parse_eq g d op hsz]
  exact ⟨fun neg h => Parse.parseM_inf g op d.toList neg h,
         fun signed h => Parse.parseM_nan g op d.toList signed h⟩

/-- **C05.2** the grammar: the state machine of `parseNumber` accepts exactly the documented syntax.
    For every byte string (bytes read as characters; no ASCII assumption is needed) the returned
    error is `parseNumberSyntaxError` iff `Spec.readNumber` rejects the input. -/
theorem parseNumber_syntax_iff (g : Globals) (d : Go.Bytes) (neg sepallowed : Bool)
    (hsz : d.size < 2^63) :
    (∃ r, Gen.parseNumber g d neg sepallowed = .ok (r, .parseNumberSyntaxError)) ↔
      Spec.readNumber sepallowed (chars d) = none := by
  obtain ⟨r, e, h, _⟩ := parseNumber_total g d neg sepallowed hsz
  have key := Parse.parseNumber_syntax_accF g d neg sepallowed hsz r e h
  rw [Parse.accF_eq_readNumber] at key
  constructor
  · rintro ⟨r', h'⟩
    rw [h] at h'
    injection h' with h'; injection h' with _ he
    have := key.mp he
    cases hn : Spec.readNumber sepallowed (chars d) with
    | none => rfl
    | some v => rw [show chars d = d.toList.map Parse.toChar from rfl] at hn; rw [hn] at this; cases this
  · intro hn
    rw [show chars d = d.toList.map Parse.toChar from rfl] at hn
    rw [hn] at key
    exact ⟨r, by rw [h, key.mpr rfl]⟩

/-- variant of **C05.2** for the returned value: whatever `parseNumber` returns, its error component
    is the syntax error iff the specification rejects the input -/
theorem parseNumber_syntax_iff' (g : Globals) (d : Go.Bytes) (neg sepallowed : Bool)
    (hsz : d.size < 2^63) (r : Gen.Decimal) (e : Go.Err)
    (h : Gen.parseNumber g d neg sepallowed = .ok (r, e)) :
    e = .parseNumberSyntaxError ↔ Spec.readNumber sepallowed (chars d) = none := by
  have key := Parse.parseNumber_syntax_accF g d neg sepallowed hsz r e h
  rw [Parse.accF_eq_readNumber] at key
  rw [key]
  cases Spec.readNumber sepallowed (d.toList.map Parse.toChar) <;> simp

/-- **C05.2b** the grammar of `parse`: the returned error is `parseSyntaxError` iff the specification
    (`Spec.readLiteral` with separators and names allowed) rejects the input. -/
theorem parse_syntax_iff (g : Globals) (d : Go.Bytes) (op : UInt64)
    (hsz : d.size < 2^63) (r : Gen.Decimal) (e : Go.Err) (h : Gen.parse g d op = .ok (r, e)) :
    e = .parseSyntaxError ↔ Spec.readLiteral true true (chars d) = none := by
  rw [Parse.parse_eq g d op hsz] at h
  exact Parse.parseM_syntax_iff g op d.toList (by simpa using hsz) r e h

/-- **C05.4** canonical numerals.  Let the input be `ip [ '.' fp ] [ (e|E) [sign] ep ]` with digit
    strings `ip`, `fp`, `ep`, at least one and at most 19 significand digits, no separators, and a
    written exponent below 10^9.  Then
    * the specification reads it as the literal `m · 10^e` with `m` the digits `ip fp` as a number and
      `e` the written exponent minus the number of fraction digits, and
    * `parseNumber` returns `Parse.canonResult g neg m e`, i.e. `zero neg` if `m = 0`, `±Inf` with a
      range error if `e > 6150`, `zero neg` if `e < -6215`, and otherwise
      `reduce128 DefaultRoundingMode neg ⟨m, 0⟩ (e + 6176) 0` composed with `compose`
      (or `±Inf` with a range error when the reduced exponent exceeds 12287):
      the numeric state after the loops is `sig = m`, `exp − nfrac = e`, `trunc = 0`. -/
theorem parseNumber_value_canonical (g : Globals) (d : Go.Bytes) (neg sepallowed : Bool)
    (hsz : d.size < 2^63)
    (ip fp sgn ep : List UInt8) (hasDot hasExp : Bool) (ech : UInt8)
    (hip : ∀ c ∈ ip, Parse.isDig c = true) (hfp : ∀ c ∈ fp, Parse.isDig c = true)
    (hep : ∀ c ∈ ep, Parse.isDig c = true)
    (hd : d.toList = ip ++ (if hasDot then 46 :: fp else []) ++ (if hasExp then ech :: (sgn ++ ep) else []))
    (hfp0 : hasDot = false → fp = []) (hne : ip ++ fp ≠ []) (h19 : ip.length + fp.length ≤ 19)
    (hech : ech = 101 ∨ ech = 69) (hsgn : sgn = [] ∨ sgn = [45] ∨ sgn = [43])
    (hepne : hasExp = true → ep ≠ []) (hexp0 : hasExp = false → ep = [] ∧ sgn = [])
    (hev : Parse.val ep < 10^9) :
    Spec.readNumber sepallowed (chars d) =
        some (Parse.val (ip ++ fp),
          (if sgn = [45] then -(Parse.val ep : Int) else (Parse.val ep : Int)) - (fp.length : Int)) ∧
      Gen.parseNumber g d neg sepallowed =
        Parse.canonResult g neg (Parse.val (ip ++ fp))
          ((if sgn = [45] then -(Parse.val ep : Int) else (Parse.val ep : Int)) - (fp.length : Int)) := by
  constructor
  · show Spec.readNumber sepallowed (d.toList.map Parse.toChar) = _
    rw [hd]
    exact Parse.readNumber_canonical sepallowed ip fp sgn ep hasDot hasExp ech hip hfp hep hfp0 hne hech hsgn
      hepne hexp0
  · exact Parse.parseNumber_canonical g d neg sepallowed hsz ip fp sgn ep hasDot hasExp ech hip hfp hep hd
      hfp0 hne h19 hech hsgn hepne hexp0 hev

end Props.C05
