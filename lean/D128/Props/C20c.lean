/-
  Property C20 (continued): `Log1p` is total for EVERY bit pattern of the argument and EVERY value of
  `DefaultRoundingMode` — this closes the hypothesis of `Props.C20b.Log1p_total_partial`.

  Below `10^-3264` the `int16` exponents inside `decomposed192.log1p` wrap around and the result is wrong
  (recorded finding `log1p-tiny-argument-exponent-wrap`: 0 or ±Inf).  The open question was whether that garbage
  can be the pair "zero significand, flag −1" on which the rounding kernel does not return in the directed modes
  (`D128.Proofs.Total.round_zero_stuck`).  It cannot (`D128/Proofs/TotalLog1pWrap.lean`): the wrapped exponent
  difference seen by every `add`/`sub` of the series is `≡ (k-j)·|E| + slack (mod 2^16)` with
  `3265 ≤ (k-j)·|E| ≤ 55584`, hence never inside the overlap window `(-116, 116)`; each step returns one of its
  two non-zero operands (scaled), so the significand handed to the rounding kernel is never zero.
-/
import D128.Proofs.TotalLog1pWrap
set_option autoImplicit false

namespace Props.C20c
open D128.Proofs.Total

/-- `Log1p`: every bit pattern, every mode byte (valid or not): returns, no panic -/
theorem Log1p_total (g : Globals) (d : Gen.Decimal) : ∃ r, Gen.Log1p g d = .ok r :=
  Log1p_total_all g d

/-- the fact behind it: below the wrap threshold the series `decomposed192.log1p` returns a NON-ZERO significand
(for every non-zero significand and every exponent in `[-6176, -3265]`, both signs) -/
theorem log1p_wrapped_never_zero (x : Gen.decomposed192) (neg : Bool) (hd : x.sig.toNat ≠ 0)
    (hE0 : -6176 ≤ x.exp.toInt) (hE1 : x.exp.toInt ≤ -3265) :
    ∃ r, Gen.decomposed192.log1p x neg = .ok r ∧ r.2.1.sig.toNat ≠ 0 :=
  log1p_wrap_good x neg hd hE0 hE1

/-- … and for every small argument a `Decimal` can hold the result is not the degenerate pair -/
theorem log1p_never_degenerate (x : Gen.decomposed192) (neg : Bool) (h : ArgSmallAll x) :
    ∃ r, Gen.decomposed192.log1p x neg = .ok r ∧ Good r := log1p_good_all x neg h

/-- `Log1p(1e-3641)` under ToZero, `Log1p(-7e-6170)` under ToNegativeInf, `Log1p(1e-6176)` under ToPositiveInf -/
example : ∃ r, Gen.Log1p ⟨2⟩ (Gen.compose false ⟨1, 0⟩ 2535) = .ok r := Log1p_total _ _
example : ∃ r, Gen.Log1p ⟨4⟩ (Gen.compose true ⟨7, 0⟩ 6) = .ok r := Log1p_total _ _
example : ∃ r, Gen.Log1p ⟨5⟩ (Gen.compose false ⟨1, 0⟩ 0) = .ok r := Log1p_total _ _

end Props.C20c
