/-
  Property C04, second part: what a caller reads off a comparison.  `Cmp` and `CmpAbs` return a `CmpResult`;
  the caller asks it `Less()`, `LessOrEqual()`, `Equal()`, `GreaterOrEqual()`, `Greater()`.  These theorems
  state, for ALL pairs of bit patterns, that each of the five answers is the exact relation between the denoted
  values, and that for a NaN operand all five are false ("none of Less/Equal/Greater").

  Generated definitions: `Gen.CmpResult.*` (compare.go), `Gen.Decimal.Cmp`, `Gen.Decimal.CmpAbs`.
-/
import D128.Props.C04
set_option autoImplicit false

namespace Props.C04b

local notation "𝔳[" d "]" => Spec.interp (Gen.Decimal.lo d) (Gen.Decimal.hi d)

/-- the five answers as a function of the specified comparison code -/
def flags (c : Int) : Bool × Bool × Bool × Bool × Bool :=
  (decide (c = -1), decide (c = -1 ∨ c = 0), decide (c = 0), decide (c = 1 ∨ c = 0), decide (c = 1))

/-- the five methods of the generated `CmpResult` -/
def methods (cr : Int8) : Bool × Bool × Bool × Bool × Bool :=
  (Gen.CmpResult.Less cr, Gen.CmpResult.LessOrEqual cr, Gen.CmpResult.Equal cr,
   Gen.CmpResult.GreaterOrEqual cr, Gen.CmpResult.Greater cr)

theorem methods_ofInt (c : Int) (hc : c = -2 ∨ c = -1 ∨ c = 0 ∨ c = 1) :
    methods (Int8.ofInt c) = flags c := by
  rcases hc with h | h | h | h <;> subst h <;> decide

/-- `x.Cmp(y)` followed by any of the five methods answers the exact relation between the values. -/
theorem cmp_methods (d o : Gen.Decimal) :
    ∃ cr, Gen.Decimal.Cmp d o = .ok cr ∧ methods cr = flags (Spec.cmp 𝔳[d] 𝔳[o]) :=
  ⟨_, Props.C04.cmp_correct d o, methods_ofInt _ (CmpPf.spec_cmp_range _ _)⟩

/-- the same for `CmpAbs` and the absolute values -/
theorem cmpAbs_methods (d o : Gen.Decimal) :
    ∃ cr, Gen.Decimal.CmpAbs d o = .ok cr ∧ methods cr = flags (Spec.cmpAbs 𝔳[d] 𝔳[o]) :=
  ⟨_, Props.C04.cmpAbs_correct d o, methods_ofInt _ (CmpPf.spec_cmp_range _ _)⟩

/-- with a NaN operand none of Less / Equal / Greater (nor the two "or equal") is reported -/
theorem nan_reports_nothing (d o : Gen.Decimal) (h : 𝔳[d].isNaN = true ∨ 𝔳[o].isNaN = true) :
    ∃ cr, Gen.Decimal.Cmp d o = .ok cr ∧ methods cr = (false, false, false, false, false) := by
  obtain ⟨cr, h1, h2⟩ := cmp_methods d o
  refine ⟨cr, h1, ?_⟩
  have hc : Spec.cmp 𝔳[d] 𝔳[o] = -2 := by
    rcases h with h | h
    · cases hx : 𝔳[d] <;> rw [hx] at h <;> simp_all [Spec.cmp, Spec.Val.isNaN]
    · cases hx : 𝔳[d] <;> cases hy : 𝔳[o] <;> rw [hy] at h <;> simp_all [Spec.cmp, Spec.Val.isNaN]
  rw [h2, hc]; decide

/-- exactly one of Less / Equal / Greater holds for ordered operands, and the "or equal" forms are their unions -/
theorem trichotomy (d o : Gen.Decimal) (hd : 𝔳[d].isNaN = false) (ho : 𝔳[o].isNaN = false) :
    ∃ cr, Gen.Decimal.Cmp d o = .ok cr ∧
      ((Gen.CmpResult.Less cr && !Gen.CmpResult.Equal cr && !Gen.CmpResult.Greater cr) ||
       (!Gen.CmpResult.Less cr && Gen.CmpResult.Equal cr && !Gen.CmpResult.Greater cr) ||
       (!Gen.CmpResult.Less cr && !Gen.CmpResult.Equal cr && Gen.CmpResult.Greater cr)) = true ∧
      Gen.CmpResult.LessOrEqual cr = (Gen.CmpResult.Less cr || Gen.CmpResult.Equal cr) ∧
      Gen.CmpResult.GreaterOrEqual cr = (Gen.CmpResult.Greater cr || Gen.CmpResult.Equal cr) := by
  obtain ⟨cr, h1, h2⟩ := cmp_methods d o
  refine ⟨cr, h1, ?_⟩
  have hne : Spec.cmp 𝔳[d] 𝔳[o] ≠ -2 := by
    cases hx : 𝔳[d] <;> cases hy : 𝔳[o] <;> rw [hx] at hd <;> rw [hy] at ho <;>
      simp_all [Spec.cmp, Spec.Val.isNaN] <;> (repeat' split) <;> omega
  simp only [methods, flags, Prod.mk.injEq] at h2
  obtain ⟨a, b, c, e, f⟩ := h2
  rw [a, b, c, e, f]
  rcases CmpPf.spec_cmp_range 𝔳[d] 𝔳[o] with h | h | h | h
  · exact absurd h hne
  all_goals rw [h]; decide

example : methods (-2) = (false, false, false, false, false) := by decide
example : methods 0 = (false, true, true, true, false) := by decide

end Props.C04b
