/-
  Property C02 — multiplication and division are correctly rounded in all six rounding modes.
  Statements about the generated `Gen.Decimal.MulWithMode`, `Gen.Decimal.Mul` (translation of
  /repo/arith.go) against `Spec.mul` (D128/Spec/Arith.lean) over `Spec.interp d.lo d.hi`, for ALL
  2^256 operand pairs (NaN, ±Inf, ±0, finite) and every valid mode byte.  Each theorem also shows that
  the call terminates and does not panic.

  * `mul_correct`   `MulWithMode d o rm` returns a Decimal denoting `Spec.mul m 𝔳[d] 𝔳[o]`
  * `mul_default`   `Mul g d o = MulWithMode d o g.DefaultRoundingMode`
  * `mul_correct_default`  the corollary for `Mul`

  Proofs assemble `Props.C15.mul_prologue` (an operand is special or zero) and `MQ.mul_finite`
  (D128/Proofs/MulQuoMul.lean; exact product, `reduce128_correct` / `reduce256_correct`).
-/
import D128.Props.C15
import D128.Proofs.MulQuoMul
set_option autoImplicit false

namespace Props.C02

/-- the value a bit pattern denotes -/
local notation "𝔳[" d "]" => Spec.interp (Gen.Decimal.lo d) (Gen.Decimal.hi d)

/-- **C02, multiplication.**  For every pair of bit patterns and every valid rounding mode,
    `MulWithMode` returns (no panic, terminates) a Decimal that denotes the correctly rounded product
    `Spec.mul m 𝔳[d] 𝔳[o]`: NaN propagation / invalid-operation payloads, ±Inf, signed zeros, and for
    finite non-zero operands the member of the format mode `m` selects for the exact product
    (signed zero below 1e-6177, ±Inf on overflow). -/
theorem mul_correct (d o : Gen.Decimal) (rm : UInt8) (m : Spec.Mode)
    (hm : Spec.Mode.ofNat? rm.toNat = some m) :
    ∃ r, Gen.Decimal.MulWithMode d o rm = .ok r ∧ (𝔳[r]).same (Spec.mul m 𝔳[d] 𝔳[o]) = true := by
  cases hd : Gen.Decimal.isSpecial d
  · cases ho : Gen.Decimal.isSpecial o
    · cases zd : Gen.Decimal.IsZero d
      · cases zo : Gen.Decimal.IsZero o
        · exact MQ.mul_finite d o rm m hm hd ho zd zo
        · exact Props.C15.mul_prologue d o rm m (Or.inr (Or.inr (Or.inr zo)))
      · exact Props.C15.mul_prologue d o rm m (Or.inr (Or.inr (Or.inl zd)))
    · exact Props.C15.mul_prologue d o rm m (Or.inr (Or.inl ho))
  · exact Props.C15.mul_prologue d o rm m (Or.inl hd)

/-- `Mul` is `MulWithMode` at the package default rounding mode. -/
theorem mul_default (g : Globals) (d o : Gen.Decimal) :
    Gen.Decimal.Mul g d o = Gen.Decimal.MulWithMode d o g.DefaultRoundingMode :=
  Props.C15.mul_eq_withMode g d o

theorem mul_correct_default (g : Globals) (d o : Gen.Decimal) (m : Spec.Mode)
    (hm : Spec.Mode.ofNat? g.DefaultRoundingMode.toNat = some m) :
    ∃ r, Gen.Decimal.Mul g d o = .ok r ∧ (𝔳[r]).same (Spec.mul m 𝔳[d] 𝔳[o]) = true := by
  rw [mul_default]; exact mul_correct d o g.DefaultRoundingMode m hm

end Props.C02
