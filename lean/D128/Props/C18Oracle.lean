/-
  Property C18, oracle side: what the verdicts of `Spec.judgePow` (D128/Spec/Elem.lean) mean over the reals.
  This is about the specification, not about the Go code (for the code see `Props/C18.lean`).  `X n c e` is the
  real value of a finite operand, `X^Y` Mathlib's real power (for a negative base and an integer exponent it is
  the true power, with sign `(−1)^Y`), `ulpExp T` the exponent of the unit in the last place of the format at
  the real `T`, and `propTol = |Y|·(4·10^-37·|ln|X|| + 10^-55)` the property's extra relative tolerance.
  No side hypotheses: the certified logarithm and the guarded `expI` answer `none` rather than something
  unproved.  Statements only; proofs in `D128/Proofs/EnclosurePow.lean`.

  1. `pow_enclosure`    Encl.log xc xe = some l → powT? (l·y) = some t → |X|^Y ∈ₛ t
     `pow_sign`         X^Y = (−1)^[X<0 ∧ Y odd integer] · |X|^Y     (finite operands on the general path)
     `tolerance_le`     the tolerance used by the code is ≥ the property's
  3. `ok_close`         `.ok` ⇒ sign (−1)^y ∧ |r − x^y| ≤ (1+2·10^-3)·10^eT + (1+2·10^-14)·propTol·|x^y|
     `undecided_cases`  when `judgePow` answers `.undecided`
  2. `bad_sound`        every `.bad` verdict of `judgePow` is `PowBad`: table mismatch on the shortcut cases, or
                        the power is beyond 10^±17000 and the result is not ±Inf / ±0 of the right sign, or
                        `PowViolation`: NaN, wrong sign, more than one ulp + tolerance away, zero / Inf /
                        finite although the power is (not) representable
-/
import D128.Proofs.EnclosurePow
import D128.Proofs.EnclosureUndecided
set_option autoImplicit false

namespace Props.C18Oracle
open Spec Spec.Encl EnclPf

theorem pow_enclosure (xn : Bool) (xc : Nat) (xe : Int) (yn : Bool) (yc : Nat) (ye : Int) (l : I) (t : Sci)
    (hc0 : xc ≠ 0) (hl : Encl.log (xc : ℚ) xe = some l) (ht : powT? (powP l yn yc ye) = some t) :
    |X xn xc xe| ^ (X yn yc ye) ∈ₛ t :=
  pow_true_encl xn xc xe yn yc ye l t hc0 hl ht

theorem pow_sign (m : Mode) (xn : Bool) (xc : Nat) (xe : Int) (yn : Bool) (yc : Nat) (ye : Int)
    (hs : powSpecial m (.fin xn xc xe) (.fin yn yc ye) = none) :
    (X xn xc xe) ^ (X yn yc ye) = (if powNeg xn yc ye then -1 else 1) * |X xn xc xe| ^ (X yn yc ye) := by
  obtain ⟨hc0, hpar⟩ := powSpecial_none_facts m xn xc xe yn yc ye hs
  exact rpow_sign xn xc xe yn yc ye hc0 hpar

theorem tolerance_le (xn : Bool) (xc : Nat) (xe : Int) (yn : Bool) (yc : Nat) (ye : Int) (l : I)
    (hc0 : xc ≠ 0) (hl : Encl.log (xc : ℚ) xe = some l) :
    propTol xn xc xe yn yc ye ≤ ((powExtra l (mag yc ye) : ℚ) : ℝ) :=
  (powExtra_ge (xn := xn) yn yc ye hc0 hl).1

/-- **A reported violation is a true violation**, for all operands, results and modes. -/
theorem bad_sound (m : Mode) (x y r : Val) (msg : String) (h : judgePow m x y r = .bad msg) :
    PowBad m x y r :=
  judgePow_bad_sound m x y r msg h

/-- unfolded for a finite non-zero result on the enclosure path: wrong sign, or more than one unit in the last
    place plus the property's tolerance from the exact power, or the exact power is out of range -/
theorem bad_finite (m : Mode) (xn : Bool) (xc : Nat) (xe : Int) (yn : Bool) (yc : Nat) (ye : Int) (l : I)
    (rn : Bool) (rc : Nat) (re : Int) (t : Sci) (msg : String)
    (hs : powSpecial m (.fin xn xc xe) (.fin yn yc ye) = none)
    (hl : Encl.log (xc : ℚ) xe = some l) (hy1 : ¬ ye > 45) (hy2 : ¬ ye < -6300)
    (hp1 : ¬ (powP l yn yc ye).lo > 40000) (hp2 : ¬ (powP l yn yc ye).hi < -40000)
    (ht : powT? (powP l yn yc ye) = some t)
    (h : judgePow m (.fin xn xc xe) (.fin yn yc ye) (.fin rn (rc + 1) re) = .bad msg) :
    let P := (X xn xc xe) ^ (X yn yc ye)
    (rn = true ↔ 0 < P) ∨
    (10 : ℝ) ^ (ulpExp |P|) + propTol xn xc xe yn yc ye * |P| < |X rn (rc + 1) re - P| ∨
    (10 : ℝ) ^ (Emax + 41) ≤ |P| ∨ |P| < (10 : ℝ) ^ (Emin - 40) :=
  pow_general_bad_sound m xn xc xe yn yc ye l _ t msg hs hl hy1 hy2 hp1 hp2 ht h

/-- **`.ok` on a finite non-zero result** (enclosure path, tolerance of the code below 100 %): the result has the
    sign `(−1)^y` and
      |r − x^y| ≤ (1 + 2·10^-3)·10^eT + (1 + 2·10^-14)·propTol·|x^y|,
    i.e. one unit in the last place (at the upper end of the enclosure) plus the property's tolerance, up to the
    proved width of the enclosure. -/
theorem ok_close (m : Mode) (xn : Bool) (xc : Nat) (xe : Int) (yn : Bool) (yc : Nat) (ye : Int) (l : I)
    (rn : Bool) (rc : Nat) (re : Int) (t : Sci)
    (hs : powSpecial m (.fin xn xc xe) (.fin yn yc ye) = none)
    (hl : Encl.log (xc : ℚ) xe = some l) (hy1 : ¬ ye > 45) (hy2 : ¬ ye < -6300)
    (hp1 : ¬ (powP l yn yc ye).lo > 40000) (hp2 : ¬ (powP l yn yc ye).hi < -40000)
    (ht : powT? (powP l yn yc ye) = some t)
    (hx1 : powExtra l (mag yc ye) ≤ 1)
    (h : judgePow m (.fin xn xc xe) (.fin yn yc ye) (.fin rn (rc + 1) re) = .ok) :
    let P := (X xn xc xe) ^ (X yn yc ye)
    rn = powNeg xn yc ye ∧
    |X rn (rc + 1) re - P| ≤
      (1 + 2 / 10 ^ 3) * (10 : ℝ) ^ (eT t) + (1 + 2 / 10 ^ 14) * propTol xn xc xe yn yc ye * |P| :=
  pow_ok_close m xn xc xe yn yc ye l rn rc re t hs hl hy1 hy2 hp1 hp2 ht hx1 h

/-- the tolerance of the code exceeds the property's by at most 10^-40 relative -/
theorem tolerance_ge (xn : Bool) (xc : Nat) (xe : Int) (yn : Bool) (yc : Nat) (ye : Int) (l : I)
    (hc0 : xc ≠ 0) (hl : Encl.log (xc : ℚ) xe = some l) :
    ((powExtra l (mag yc ye) : ℚ) : ℝ) ≤ (1 + 1 / 10 ^ 40) * propTol xn xc xe yn yc ye :=
  powExtra_le (xn := xn) yn yc ye hc0 hl

/-! ## what the oracle cannot decide -/

/-- `judgePow` answers `.undecided` only outside the shortcut cases and only when: the certified logarithm of
    the base fails (`Encl.log = none`, not observed), or the exponent of `y` is above 45 or below −6300, or `y·ln|x|`
    lies within ±40000 but is enclosed too widely for the guarded `expI` (`powT? p = none`; this needs an enclosure
    of `y·ln|x|` wider than ~5, i.e. a tolerance far above 100 %).  `withinUlps` never answers "enclosure not
    positive".  (The first alternative — a non-finite operand with `powSpecial = none` — does not occur.) -/
theorem undecided_cases (m : Mode) (x y r : Val) (w : String) (h : judgePow m x y r = .undecided w) :
    powSpecial m x y = none ∧
    ((x.isFin = false ∨ y.isFin = false) ∨
     ∃ xn xc xe yn yc ye, x = .fin xn xc xe ∧ y = .fin yn yc ye ∧
      (Encl.log (xc : ℚ) xe = none ∨ ye > 45 ∨ ye < -6300 ∨
        ∃ l, Encl.log (xc : ℚ) xe = some l ∧ ¬ (powP l yn yc ye).lo > 40000 ∧
          ¬ (powP l yn yc ye).hi < -40000 ∧ powT? (powP l yn yc ye) = none)) :=
  judgePow_undecided m x y r w h

end Props.C18Oracle
