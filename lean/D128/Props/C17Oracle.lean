/-
  Property C17, oracle side: what the verdicts of `Spec.judgeRoot` (D128/Spec/Elem.lean; the exact rational
  decision `Spec.rootOk`) mean over the reals.  This is about the specification, not about the Go code (for the
  code see `Props/C17.lean`): it shows that the decidable test is the property's claim
     "Sqrt/Cbrt(d) is within (1/2 + 10^-20) units in the last place of the exact root",
  `rootR k c e = (c·10^e)^(1/k)` being Mathlib's real power and `rootH rc re = (1/2 + 10^-20)·10^(spacing at r)`.
  Statements only; proofs in `D128/Proofs/EnclosureRoot.lean`.

  1. `rootOk_real`        rootOk k c e rc re = true ↔ rc ≠ 0 ∧ |k·re − e| ≤ 200 ∧ |rc·10^re − rootR k c e| ≤ rootH rc re   (k ≠ 0)
     `rootOk_real_valid`  for Decimal values (0 < c < 10^35, 0 < rc ≤ Cmax, Emin ≤ re, k = 2, 3) the exponent guard is
                          implied:  rootOk k c e rc re = true ↔ |rc·10^re − rootR k c e| ≤ rootH rc re
  2. `ok_sound`           judgeRoot … = .ok on finite operands (general path) ⇒ same sign, non-zero, within the tolerance
     `bad_sound`          judgeRoot … = .bad on a finite result ⇒ wrong sign ∨ zero ∨ more than the tolerance away
     `bad_cases`          every `.bad` verdict: table mismatch (special operand), non-finite result, or `bad_sound`
-/
import D128.Proofs.EnclosureRoot
set_option autoImplicit false

namespace Props.C17Oracle
open Spec Spec.Encl EnclPf

theorem rootOk_real (k c : Nat) (e : Int) (rc : Nat) (re : Int) (hk : k ≠ 0) :
    rootOk k c e rc re = true ↔
      rc ≠ 0 ∧ (-200 ≤ (k : Int) * re - e ∧ (k : Int) * re - e ≤ 200) ∧
      |(rc : ℝ) * (10 : ℝ) ^ re - rootR k c e| ≤ rootH rc re :=
  rootOk_iff k c e rc re hk

theorem rootOk_real_valid (k c : Nat) (e : Int) (rc : Nat) (re : Int) (hk : k = 2 ∨ k = 3)
    (hc0 : c ≠ 0) (hc : c < 10 ^ 35) (h0 : rc ≠ 0) (hrc : rc ≤ Cmax) (hre : Emin ≤ re) :
    rootOk k c e rc re = true ↔ |(rc : ℝ) * (10 : ℝ) ^ re - rootR k c e| ≤ rootH rc re :=
  rootOk_iff_valid k c e rc re hk hc0 hc h0 hrc hre

/-- √2 = 1.414213562373095048801688724209698(07…): the 34-digit truncation is accepted, kernel-evaluated, and the
    theorem turns that into a statement about Mathlib's real power -/
example : |((1414213562373095048801688724209698 : ℕ) : ℝ) * (10 : ℝ) ^ (-33 : Int) - rootR 2 2 0| ≤
    rootH 1414213562373095048801688724209698 (-33) :=
  ((rootOk_real 2 2 0 1414213562373095048801688724209698 (-33) (by norm_num)).1 (by decide +kernel)).2.2

theorem ok_sound (f : Fn) (n : Bool) (c : Nat) (e : Int) (rn : Bool) (rc : Nat) (re : Int)
    (hs : specialCase f (.fin n c e) = none)
    (h : judgeRoot f (.fin n c e) (.fin rn rc re) = .ok) :
    rn = n ∧ rc ≠ 0 ∧ |(rc : ℝ) * (10 : ℝ) ^ re - rootR (rootIdx f) c e| ≤ rootH rc re :=
  judgeRoot_ok_sound f n c e rn rc re hs h

theorem bad_sound (f : Fn) (n : Bool) (c : Nat) (e : Int) (rn : Bool) (rc : Nat) (re : Int)
    (msg : String) (hs : specialCase f (.fin n c e) = none) (hc : c < 10 ^ 35)
    (hrc : rc ≤ Cmax) (hre : Emin ≤ re)
    (h : judgeRoot f (.fin n c e) (.fin rn rc re) = .bad msg) :
    rn ≠ n ∨ rc = 0 ∨ rootH rc re < |(rc : ℝ) * (10 : ℝ) ^ re - rootR (rootIdx f) c e| :=
  judgeRoot_bad_sound f n c e rn rc re msg hs hc hrc hre h

/-- every `.bad` verdict of `judgeRoot`: the result differs from the table value of a special operand; or the
    operand is finite, non-special and the result is not finite; or `bad_sound` applies -/
theorem bad_cases (f : Fn) (x r : Val) (msg : String) (h : judgeRoot f x r = .bad msg) :
    (∃ want, specialCase f x = some want ∧ r.same want = false) ∨
    (∃ n c e, x = .fin n c e ∧ specialCase f x = none ∧
      (r.isFin = false ∨ ∃ rn rc re, r = .fin rn rc re ∧
        (rn ≠ n ∨ rootOk (rootIdx f) c e rc re = false))) := by
  cases hs : specialCase f x with
  | some want =>
    left
    refine ⟨want, rfl, ?_⟩
    unfold judgeRoot at h
    simp only [hs] at h
    split at h
    · exact absurd h (by simp)
    · rename_i hne; simpa using hne
  | none =>
    right
    match x with
    | .nan _ _ => exact absurd hs (by simp [specialCase])
    | .inf _ => exact absurd hs (by cases f <;> simp [specialCase])
    | .fin n c e =>
      refine ⟨n, c, e, rfl, rfl, ?_⟩
      match r with
      | .nan _ _ => left; rfl
      | .inf _ => left; rfl
      | .fin rn rc re =>
        right
        refine ⟨rn, rc, re, rfl, ?_⟩
        rw [judgeRoot_cases f n c e rn rc re hs] at h
        split at h
        · rename_i hsg; left; simpa using hsg
        · right
          split at h
          · exact absurd h (by simp)
          · rename_i hok; simpa using hok

end Props.C17Oracle
