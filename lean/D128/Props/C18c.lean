/-
  Property C18, third part: ACCURACY of `x.PowWithMode(y, m)` (woodsbury/decimal128, /repo/arith.go) on the general
  path `log → mul → range tests → epow → (rcp) → reduce192`, i.e. for all finite operands whose result
  `Spec.powSpecial` (the exact / special cases of D128/Props/C18.lean, C18b.lean) does not fix.

  Statements about the generated `Gen.Decimal.PowWithMode` over 𝔳[d] = `Spec.interp d.lo d.hi`, for ALL bit patterns
  with the stated values, the two NEAREST modes (mode bytes 0 and 1); each theorem shows that the call does not
  panic.  The verdict predicate is the one the oracle `Spec.judgePow` is proved sound for
  (`EnclPf.PowViolation`, `EnclPf.PowBad`, D128/Props/C18Oracle.lean): theorem and oracle say the same thing.
  `X n c e` is the real value `±c·10^e`, `x^y` Mathlib's real power, `propTol = |y|·(4·10^-37·|ln|x|| + 10^-55)`.
  Proofs assemble `D128/Proofs/PowAcc*.lean`.  NO EXCLUSION: every finite base, every finite exponent.

  1. `pow_accurate`         finite x ≠ 0, finite y, `powSpecial = none`:
                            `PowWithMode d o rm = .ok r` and `¬ PowViolation propTol (x^y) 𝔳[r]`: the sign `(−1)^y`; a finite
                            non-zero result within `10^ulpExp|x^y| + propTol·|x^y|` of `x^y`; `±Inf` only if `|x^y|(1 + propTol)`
                            plus one unit reaches the largest Decimal; a zero only if `|x^y| ≤ 10^Emin + propTol·|x^y|`;
                            and the infinity / zero of that sign when `|x^y|` is beyond `10^±17000`
     `pow_not_bad`          the same as "the oracle cannot object": `¬ EnclPf.PowBad m 𝔳[d] 𝔳[o] 𝔳[r]`
     `pow_accurate_finite`, `pow_accurate_inf`, `pow_accurate_zero`   unfolded by the kind of the result
  2. `pow_accurate_sharp`   what the code delivers: the same with `5·10^-46` in place of `4·10^-37`
                            (tolerance `|y|·(5·10^-46·|ln|x|| + 10^-55)`, `PowAcc.tolK`)
  3. `pow_correct`          ALL bit patterns at once (special and shortcut cases included): `¬ PowBad`

  HISTORY / WHAT WAS FALSE.  With `decomposed192.log` summing the artanh series to the 25th power (before /repo commit
  04f6227) the claim was FALSE for bases `1.0948 < |x| < 1.1`: the logarithm was short by up to `1.56·10^-36·|ln x|`
  (first omitted term `f^27/27`, `f = (|x|−1)/(|x|+1)`), e.g. `1.0999999^100000` came out 27.7 units in the last place too
  small where 4.8 are allowed (`D128/Proofs/PowAccEval.lean`).  The series now runs to the 33rd power; the logarithm is
  accurate to `2·10^-46·|ln x| + 4.5·10^-56` (`PowAcc.log_fine`) and the theorem holds for every base.  The proof needs
  the error of `y·ln|x|` below HALF the tolerance, because at a decade boundary the final rounding can double the error
  of the working value (`PowAcc.nearest_tol`); the additive `10^-55` of the property covers the cancellation of `log`
  just below 1 (absolute error `≤ 4.5·10^-56`).
  DIRECTED MODES (not proved here): the final rounding alone can be off by one unit of the RESULT's decade — ten units
  of the true value's decade at a boundary — and stale sticky flags of the working format reach `reduce192`, so only
  `|r − x^y| ≤ 10·10^ulpExp + propTol·|x^y|` can hold in general ("one more ulp" holds away from decade boundaries).
-/
import D128.Proofs.PowAccFinal
import D128.Props.C18Oracle
set_option autoImplicit false

namespace Props.C18c
open Spec EnclPf PowAcc

/-- the value a bit pattern denotes -/
local notation "𝔳[" d "]" => Spec.interp (Gen.Decimal.lo d) (Gen.Decimal.hi d)

/-- the property's tolerance is `PowAcc.tolK` at `κ = 4·10^-37` -/
theorem propTol_eq (xn : Bool) (xc : Nat) (xe : Int) (yn : Bool) (yc : Nat) (ye : Int) :
    propTol xn xc xe yn yc ye = tolK (4 / 10 ^ 37) xc xe yc ye := by
  unfold propTol tolK
  rw [abs_X, ← Real.log_abs (X xn xc xe), abs_X]
  have : (4 : ℝ) * (10 : ℝ) ^ (-37 : Int) = 4 / 10 ^ 37 := by norm_num
  rw [this]

/-- the power with its sign -/
theorem pow_signed (m : Mode) (xn : Bool) (xc : Nat) (xe : Int) (yn : Bool) (yc : Nat) (ye : Int)
    (hs : powSpecial m (.fin xn xc xe) (.fin yn yc ye) = none) :
    (X xn xc xe) ^ (X yn yc ye) = signed (powNeg xn yc ye) (|X xn xc xe| ^ (X yn yc ye)) := by
  rw [Props.C18Oracle.pow_sign m xn xc xe yn yc ye hs]
  unfold signed
  cases powNeg xn yc ye <;> simp

/-! ## 1. the property's tolerance -/

/-- **Accuracy of `Pow` on the general path** (nearest modes; every finite base and exponent). -/
theorem pow_accurate (d o : Gen.Decimal) (rm : UInt8) (m : Mode) (hm : Mode.ofNat? rm.toNat = some m)
    (hn : SpecRound.isNearest m = true)
    (xn : Bool) (xc : Nat) (xe : Int) (yn : Bool) (yc : Nat) (ye : Int)
    (hx : 𝔳[d] = .fin xn xc xe) (hy : 𝔳[o] = .fin yn yc ye)
    (hs : powSpecial m 𝔳[d] 𝔳[o] = none) :
    ∃ r, Gen.Decimal.PowWithMode d o rm = .ok r ∧
      ¬ PowViolation (propTol xn xc xe yn yc ye) ((X xn xc xe) ^ (X yn yc ye)) 𝔳[r] ∧
      ((10 : ℝ) ^ (17000 : ℕ) < |X xn xc xe| ^ (X yn yc ye) → (𝔳[r]).same (.inf (powNeg xn yc ye)) = true) ∧
      (|X xn xc xe| ^ (X yn yc ye) < 1 / (10 : ℝ) ^ (17000 : ℕ) →
        ((𝔳[r]).isZero && (𝔳[r]).neg == powNeg xn yc ye) = true) := by
  obtain ⟨r, hr, hg1, hg2, hg3⟩ := pow_good (2 / 10 ^ 46) (4 / 10 ^ 37) _ logBound_all (by norm_num) (by norm_num)
    (by norm_num) (by norm_num) d o rm m hm hn xn xc xe yn yc ye hx hy hs trivial
  have hs' : powSpecial m (.fin xn xc xe) (.fin yn yc ye) = none := by rw [← hx, ← hy]; exact hs
  refine ⟨r, hr, ?_, hg2, hg3⟩
  rw [propTol_eq, pow_signed m xn xc xe yn yc ye hs']
  exact hg1

/-- … in the words of the oracle: `Spec.judgePow` cannot answer `.bad` (its `.bad` verdicts are `PowBad`,
    `Props.C18Oracle.bad_sound`) -/
theorem pow_not_bad (d o : Gen.Decimal) (rm : UInt8) (m : Mode) (hm : Mode.ofNat? rm.toNat = some m)
    (hn : SpecRound.isNearest m = true)
    (xn : Bool) (xc : Nat) (xe : Int) (yn : Bool) (yc : Nat) (ye : Int)
    (hx : 𝔳[d] = .fin xn xc xe) (hy : 𝔳[o] = .fin yn yc ye)
    (hs : powSpecial m 𝔳[d] 𝔳[o] = none) :
    ∃ r, Gen.Decimal.PowWithMode d o rm = .ok r ∧ ¬ PowBad m 𝔳[d] 𝔳[o] 𝔳[r] := by
  obtain ⟨r, hr, h1, h2, h3⟩ := pow_accurate d o rm m hm hn xn xc xe yn yc ye hx hy hs
  refine ⟨r, hr, ?_⟩
  rintro (⟨want, hw, -⟩ | ⟨xn', xc', xe', yn', yc', ye', hx', hy', -, hbad⟩)
  · rw [hs] at hw; cases hw
  · rw [hx] at hx'; rw [hy] at hy'
    injection hx' with e1 e2 e3
    injection hy' with e4 e5 e6
    subst e1 e2 e3 e4 e5 e6
    rcases hbad with ⟨hh, hne⟩ | ⟨hh, hne⟩ | hpv
    · rw [h2 hh] at hne; cases hne
    · rw [h3 hh] at hne; cases hne
    · exact h1 hpv

/-- unfolded for a finite non-zero result `±c·10^e`: it has the sign `(−1)^y` (`powNeg`: x < 0 and y an odd
    integer) and is within one unit in the last place of the exact power plus the property's tolerance -/
theorem pow_accurate_finite (d o : Gen.Decimal) (rm : UInt8) (m : Mode) (hm : Mode.ofNat? rm.toNat = some m)
    (hn : SpecRound.isNearest m = true)
    (xn : Bool) (xc : Nat) (xe : Int) (yn : Bool) (yc : Nat) (ye : Int)
    (hx : 𝔳[d] = .fin xn xc xe) (hy : 𝔳[o] = .fin yn yc ye)
    (hs : powSpecial m 𝔳[d] 𝔳[o] = none)
    (r : Gen.Decimal) (hr : Gen.Decimal.PowWithMode d o rm = .ok r)
    (rn : Bool) (rc : Nat) (re : Int) (hv : 𝔳[r] = .fin rn (rc + 1) re) :
    let P := (X xn xc xe) ^ (X yn yc ye)
    ¬ (rn = true ↔ 0 < P) ∧
    |X rn (rc + 1) re - P| ≤ (10 : ℝ) ^ (ulpExp |P|) + propTol xn xc xe yn yc ye * |P| ∧
    |P| < (10 : ℝ) ^ (Emax + 41) ∧ (10 : ℝ) ^ (Emin - 40) ≤ |P| := by
  obtain ⟨r', hr', h1, -, -⟩ := pow_accurate d o rm m hm hn xn xc xe yn yc ye hx hy hs
  rw [hr] at hr'
  have : r = r' := by injection hr'
  subst this
  rw [hv] at h1
  intro P
  have h1' : ¬ ((rn = true ↔ 0 < P) ∨
      (10 : ℝ) ^ (ulpExp |P|) + propTol xn xc xe yn yc ye * |P| < |X rn (rc + 1) re - P| ∨
      (10 : ℝ) ^ (Emax + 41) ≤ |P| ∨ |P| < (10 : ℝ) ^ (Emin - 40)) := h1
  refine ⟨fun h => h1' (Or.inl h), not_lt.1 (fun h => h1' (Or.inr (Or.inl h))),
    not_le.1 (fun h => h1' (Or.inr (Or.inr (Or.inl h)))), not_lt.1 (fun h => h1' (Or.inr (Or.inr (Or.inr h))))⟩

/-- an infinite result has the sign `(−1)^y` and is returned only when the exact power, enlarged by the tolerance and
    one unit in the last place, reaches the largest finite Decimal `Cmax·10^Emax` (and `|x^y| ≥ 10^(Emax+30)`) -/
theorem pow_accurate_inf (d o : Gen.Decimal) (rm : UInt8) (m : Mode) (hm : Mode.ofNat? rm.toNat = some m)
    (hn : SpecRound.isNearest m = true)
    (xn : Bool) (xc : Nat) (xe : Int) (yn : Bool) (yc : Nat) (ye : Int)
    (hx : 𝔳[d] = .fin xn xc xe) (hy : 𝔳[o] = .fin yn yc ye)
    (hs : powSpecial m 𝔳[d] 𝔳[o] = none)
    (r : Gen.Decimal) (hr : Gen.Decimal.PowWithMode d o rm = .ok r) (rn : Bool) (hv : 𝔳[r] = .inf rn) :
    let P := (X xn xc xe) ^ (X yn yc ye)
    ¬ (rn = true ↔ 0 < P) ∧ (10 : ℝ) ^ (Emax + 30) ≤ |P| ∧
    (Cmax : ℝ) * (10 : ℝ) ^ Emax ≤ |P| + (10 : ℝ) ^ (ulpExp |P|) + propTol xn xc xe yn yc ye * |P| := by
  obtain ⟨r', hr', h1, -, -⟩ := pow_accurate d o rm m hm hn xn xc xe yn yc ye hx hy hs
  rw [hr] at hr'
  have : r = r' := by injection hr'
  subst this
  rw [hv] at h1
  intro P
  have h1' : ¬ ((rn = true ↔ 0 < P) ∨ |P| < (10 : ℝ) ^ (Emax + 30) ∨
      |P| + (10 : ℝ) ^ (ulpExp |P|) + propTol xn xc xe yn yc ye * |P| < (Cmax : ℝ) * (10 : ℝ) ^ Emax) := h1
  exact ⟨fun h => h1' (Or.inl h), not_lt.1 (fun h => h1' (Or.inr (Or.inl h))),
    not_lt.1 (fun h => h1' (Or.inr (Or.inr h)))⟩

/-- a zero result has the sign `(−1)^y` and is returned only when the exact power is at most one unit in the last
    place (`10^Emin` there) plus the tolerance -/
theorem pow_accurate_zero (d o : Gen.Decimal) (rm : UInt8) (m : Mode) (hm : Mode.ofNat? rm.toNat = some m)
    (hn : SpecRound.isNearest m = true)
    (xn : Bool) (xc : Nat) (xe : Int) (yn : Bool) (yc : Nat) (ye : Int)
    (hx : 𝔳[d] = .fin xn xc xe) (hy : 𝔳[o] = .fin yn yc ye)
    (hs : powSpecial m 𝔳[d] 𝔳[o] = none)
    (r : Gen.Decimal) (hr : Gen.Decimal.PowWithMode d o rm = .ok r) (rn : Bool) (re : Int)
    (hv : 𝔳[r] = .fin rn 0 re) :
    let P := (X xn xc xe) ^ (X yn yc ye)
    ¬ (rn = true ↔ 0 < P) ∧ |P| ≤ (10 : ℝ) ^ (ulpExp |P|) + propTol xn xc xe yn yc ye * |P| := by
  obtain ⟨r', hr', h1, -, -⟩ := pow_accurate d o rm m hm hn xn xc xe yn yc ye hx hy hs
  rw [hr] at hr'
  have : r = r' := by injection hr'
  subst this
  rw [hv] at h1
  intro P
  have h1' : ¬ ((rn = true ↔ 0 < P) ∨
      (10 : ℝ) ^ (ulpExp |P|) + propTol xn xc xe yn yc ye * |P| < |P|) := h1
  exact ⟨fun h => h1' (Or.inl h), not_lt.1 (fun h => h1' (Or.inr h))⟩

/-! ## 2. what the code delivers -/

/-- the same with `5·10^-46` in place of `4·10^-37`: the logarithm contributes next to nothing; what remains of the
    tolerance is the additive `|y|·10^-55` (cancellation in `log` just below 1, truncation of the product) -/
theorem pow_accurate_sharp (d o : Gen.Decimal) (rm : UInt8) (m : Mode) (hm : Mode.ofNat? rm.toNat = some m)
    (hn : SpecRound.isNearest m = true)
    (xn : Bool) (xc : Nat) (xe : Int) (yn : Bool) (yc : Nat) (ye : Int)
    (hx : 𝔳[d] = .fin xn xc xe) (hy : 𝔳[o] = .fin yn yc ye)
    (hs : powSpecial m 𝔳[d] 𝔳[o] = none) :
    ∃ r, Gen.Decimal.PowWithMode d o rm = .ok r ∧
      ¬ PowViolation (tolK (5 / 10 ^ 46) xc xe yc ye) ((X xn xc xe) ^ (X yn yc ye)) 𝔳[r] ∧
      ((10 : ℝ) ^ (17000 : ℕ) < |X xn xc xe| ^ (X yn yc ye) → (𝔳[r]).same (.inf (powNeg xn yc ye)) = true) ∧
      (|X xn xc xe| ^ (X yn yc ye) < 1 / (10 : ℝ) ^ (17000 : ℕ) →
        ((𝔳[r]).isZero && (𝔳[r]).neg == powNeg xn yc ye) = true) := by
  obtain ⟨r, hr, hg1, hg2, hg3⟩ := pow_good (2 / 10 ^ 46) (5 / 10 ^ 46) _ logBound_all (by norm_num) (by norm_num)
    (by norm_num) (by norm_num) d o rm m hm hn xn xc xe yn yc ye hx hy hs trivial
  have hs' : powSpecial m (.fin xn xc xe) (.fin yn yc ye) = none := by rw [← hx, ← hy]; exact hs
  refine ⟨r, hr, ?_, hg2, hg3⟩
  rw [pow_signed m xn xc xe yn yc ye hs']
  exact hg1

/-! ## 3. all operands -/

/-- **`Pow` on EVERY pair of operands (all bit patterns), nearest modes**: the call returns and the oracle cannot object — the
    shortcut cases are exact (`Props.C18b.pow_special_correct`), everything else is within the property's tolerance -/
theorem pow_correct (d o : Gen.Decimal) (rm : UInt8) (m : Mode) (hm : Mode.ofNat? rm.toNat = some m)
    (hn : SpecRound.isNearest m = true) :
    ∃ r, Gen.Decimal.PowWithMode d o rm = .ok r ∧ ¬ PowBad m 𝔳[d] 𝔳[o] 𝔳[r] := by
  cases hs : powSpecial m 𝔳[d] 𝔳[o] with
  | none =>
    obtain ⟨xn, xc, xe, yn, yc, ye, hx, hy, -, -, -⟩ := NN.powSpecial_none m _ _ hs
    exact pow_not_bad d o rm m hm hn xn xc xe yn yc ye hx hy hs
  | some w =>
    obtain ⟨r, hr, hsame⟩ := Props.C18b.pow_special_correct d o rm m w hm hs
    refine ⟨r, hr, ?_⟩
    rintro (⟨want, hw, hne⟩ | ⟨_, _, _, _, _, _, _, _, hnone, _⟩)
    · rw [hs] at hw
      injection hw with hw
      subst hw
      rw [hsame] at hne; cases hne
    · rw [hs] at hnone; cases hnone

/-! ## the hypotheses are satisfiable -/

/-- `3^0.5` (y given as `5e-1`), nearest-even: `powSpecial` leaves it open -/
theorem ex_none : powSpecial .nearestEven 𝔳[(⟨3, 3476778912330022912⟩ : Gen.Decimal)]
    𝔳[(⟨5, 3476215962376601600⟩ : Gen.Decimal)] = none := by
  have e1 : 𝔳[(⟨3, 3476778912330022912⟩ : Gen.Decimal)] = .fin false 3 0 := by decide
  have e2 : 𝔳[(⟨5, 3476215962376601600⟩ : Gen.Decimal)] = .fin false 5 (-1) := by decide
  rw [e1, e2]
  have hp : powerOfTen 3 0 = none := by decide
  have h1 : PowPf.absOne (.fin false 3 0) = false := by
    simp only [PowPf.absOne, PowPf.mag_one_iff]; decide
  have h2 : (Spec.mag 5 (-1) == 1) = false := by rw [PowPf.mag_one_iff]; decide
  rw [PowPf.powSpecial_late _ _ _ (by rfl) (by rw [h1]; rfl), PowPf.psLate_fin _ _ _ _ _ h2]
  unfold PowPf.psFin
  simp [hp]

example := pow_accurate ⟨3, 3476778912330022912⟩ ⟨5, 3476215962376601600⟩ 0 .nearestEven (by decide) (by decide)
    false 3 0 false 5 (-1) (by decide) (by decide) ex_none

example := pow_correct ⟨3, 3476778912330022912⟩ ⟨5, 3476215962376601600⟩ 1 .nearestAway (by decide) (by decide)

example := pow_accurate_sharp ⟨3, 3476778912330022912⟩ ⟨5, 3476215962376601600⟩ 0 .nearestEven (by decide) (by decide)
    false 3 0 false 5 (-1) (by decide) (by decide) ex_none

end Props.C18c
