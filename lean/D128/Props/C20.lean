/-
  Property C20: every exported function terminates without panicking on every bit pattern and
  argument (except the documented panics of `Sign`, `Payload`, `Int32/Int64/Uint32/Uint64` on NaN),
  never modifies shared state, and is a deterministic function of its arguments and
  `DefaultRoundingMode`.

  Model.  A Go function is a term `Gen.f … : Go.GoM T` (`= Except Go.Panic T`), or a plain Lean
  function when the translator found it loop- and panic-free.  "Terminates without panicking" is
  `∃ r, Gen.f args = .ok r`: `while` loops are kernel-opaque fixpoints, so such an equation can only
  be proved by exhibiting a decreasing measure for every loop that is entered.  Determinism holds by
  construction: the generated terms are functions of their arguments and of `g : Globals`
  (`g.DefaultRoundingMode`), and nothing else.

  Part 1 (effects table, `Gen.Facts`, regenerated from the Go source on every run)
  * `no_global_writes`, `no_goroutines_channels`, `unsafe_sites`, `exported_count`,
    `exported_have_effects`, `defaultRoundingMode_is_packageVar`, `only_mutable_var_read`

  Part 2 (totality of the generated entry points) — see the sections below.

  Pure generated functions (total by typing, no theorem needed): `Abs`, `Decimal.Neg`,
  `Decimal.IsNaN`, `Decimal.IsInf`, `Decimal.IsZero`, `Decimal.Signbit`, `Inf`, `NaN`, `E`, `Pi`,
  `Phi`, `CmpResult.Equal/Greater/GreaterOrEqual/Less/LessOrEqual`, `FromInt32`, `FromInt64`,
  `FromUint32`, `FromUint64`.
-/
import D128.Gen.Facts
import D128.Props.C04
import D128.Props.C05
import D128.Props.C06
import D128.Props.C07
import D128.Props.C10
import D128.Props.C11
import D128.Props.C12
import D128.Props.C15
import D128.Props.C19
set_option autoImplicit false
set_option maxRecDepth 100000

namespace Props.C20

/-! ## Part 1: the effects table -/

/-- No function of the package (exported or not) assigns to, or takes the address of, a
    package-level variable: `DefaultRoundingMode` and the constant tables are only read. -/
theorem no_global_writes : ∀ e ∈ Gen.Facts.effects, e.2.1 = [] := by decide

/-- No function starts a goroutine, uses a channel or anything from `sync`. -/
theorem no_goroutines_channels :
    ∀ e ∈ Gen.Facts.effects, e.2.2.2.1 = false ∧ e.2.2.2.2 = false := by decide

/-- The only use of package `unsafe` is the `unsafe.String` over the freshly built buffer in
    `Decimal.String`. -/
theorem unsafe_sites :
    (Gen.Facts.effects.filter (·.2.2.1)).map (·.1) = ["Decimal.String"] := by decide

/-- the public API has 93 entry points … -/
theorem exported_count : Gen.Facts.exported.length = 93 := by decide

/-- … and every one of them has a row in the effects table (so the three statements above cover
    every exported function). -/
theorem exported_have_effects :
    ∀ n ∈ Gen.Facts.exported, n ∈ Gen.Facts.effects.map (·.1) := by decide

theorem defaultRoundingMode_is_packageVar : "DefaultRoundingMode" ∈ Gen.Facts.packageVars := by
  decide

/-- All functions together write no package variable at all (the union of the write sets is
    empty), hence every package variable — in particular the only exported one,
    `DefaultRoundingMode` — is read-only for the library. -/
theorem written_vars_empty : (Gen.Facts.effects.map (·.2.1)).flatten = [] := by decide

/-! ## Part 2: totality — restatements of results proved for other properties -/

/-! ### comparison (C04) -/

theorem Cmp_total (d o : Gen.Decimal) : ∃ r, Gen.Decimal.Cmp d o = .ok r :=
  ⟨_, Props.C04.cmp_correct d o⟩
theorem CmpAbs_total (d o : Gen.Decimal) : ∃ r, Gen.Decimal.CmpAbs d o = .ok r :=
  ⟨_, Props.C04.cmpAbs_correct d o⟩
theorem Equal_total (d o : Gen.Decimal) : ∃ r, Gen.Decimal.Equal d o = .ok r :=
  ⟨_, Props.C04.equal_correct d o⟩
theorem Compare_total (d o : Gen.Decimal) : ∃ r, Gen.Compare d o = .ok r :=
  ⟨_, Props.C04.compare_correct d o⟩
theorem Min_total (d o : Gen.Decimal) : ∃ r, Gen.Min d o = .ok r :=
  let ⟨r, h, _⟩ := Props.C04.min_correct d o; ⟨r, h⟩
theorem Max_total (d o : Gen.Decimal) : ∃ r, Gen.Max d o = .ok r :=
  let ⟨r, h, _⟩ := Props.C04.max_correct d o; ⟨r, h⟩

/-- `Sign` returns normally on everything but NaN, where it panics with its documented message. -/
theorem Sign_total (d : Gen.Decimal) :
    (Gen.Decimal.IsNaN d = false ∧ ∃ r, Gen.Decimal.Sign d = .ok r) ∨
    (Gen.Decimal.IsNaN d = true ∧
      Gen.Decimal.Sign d = .error (.explicit "Decimal(NaN).Sign()")) := by
  unfold Gen.Decimal.Sign
  cases h : Gen.Decimal.IsNaN d
  · left
    refine ⟨rfl, ?_⟩
    simp only [Bool.false_eq_true, if_false]
    split
    · exact ⟨_, rfl⟩
    · split <;> exact ⟨_, rfl⟩
  · right
    exact ⟨rfl, rfl⟩

/-! ### binary encoding (C12), canonical form (C19), Frexp (C11) -/

theorem MarshalBinary_total (d : Gen.Decimal) : ∃ r, Gen.Decimal.MarshalBinary d = .ok r :=
  let ⟨_, h⟩ := Props.C12.marshal_ok d; ⟨_, h⟩
theorem UnmarshalBinary_total (d0 : Gen.Decimal) (data : Go.Bytes) :
    ∃ r, Gen.Decimal.UnmarshalBinary d0 data = .ok r :=
  let ⟨_, _, h⟩ := Props.C12.unmarshal_total d0 data; ⟨_, h⟩
theorem Canonical_total (d : Gen.Decimal) : ∃ r, Gen.Decimal.Canonical d = .ok r :=
  ⟨_, Props.C19.canonical_eq d⟩
theorem Frexp_total (d : Gen.Decimal) : ∃ r, Gen.Frexp d = .ok r :=
  let ⟨_, _, h, _⟩ := Props.C11.frexp_spec_struct d; ⟨_, h⟩

/-! ### integer conversions (C10): documented panic on NaN only -/

theorem Int64_total (d : Gen.Decimal) :
    (Gen.Decimal.IsNaN d = false ∧ ∃ r, Gen.Decimal.Int64_ d = .ok r) ∨
    (Gen.Decimal.IsNaN d = true ∧
      Gen.Decimal.Int64_ d = .error (.explicit "Decimal(NaN).Int64()")) := by
  have hp := Props.C10.int64_panics_iff_nan d
  have hs := Props.C10.int64_spec d
  cases hn : Gen.Decimal.IsNaN d
  · left
    refine ⟨rfl, ?_⟩
    cases h : Gen.Decimal.Int64_ d with
    | ok r => exact ⟨r, rfl⟩
    | error p => have := hp.1 ⟨p, h⟩; rw [hn] at this; cases this
  · right
    refine ⟨rfl, ?_⟩
    obtain ⟨p, h⟩ := hp.2 hn
    rw [hs] at h ⊢
    split at h
    · rfl
    · cases h

theorem Int32_total (d : Gen.Decimal) :
    (Gen.Decimal.IsNaN d = false ∧ ∃ r, Gen.Decimal.Int32_ d = .ok r) ∨
    (Gen.Decimal.IsNaN d = true ∧
      Gen.Decimal.Int32_ d = .error (.explicit "Decimal(NaN).Int32()")) := by
  have hp := Props.C10.int32_panics_iff_nan d
  have hs := Props.C10.int32_spec d
  cases hn : Gen.Decimal.IsNaN d
  · left
    refine ⟨rfl, ?_⟩
    cases h : Gen.Decimal.Int32_ d with
    | ok r => exact ⟨r, rfl⟩
    | error p => have := hp.1 ⟨p, h⟩; rw [hn] at this; cases this
  · right
    refine ⟨rfl, ?_⟩
    obtain ⟨p, h⟩ := hp.2 hn
    rw [hs] at h ⊢
    split at h
    · rfl
    · cases h

theorem Uint64_total (d : Gen.Decimal) :
    (Gen.Decimal.IsNaN d = false ∧ ∃ r, Gen.Decimal.Uint64 d = .ok r) ∨
    (Gen.Decimal.IsNaN d = true ∧
      Gen.Decimal.Uint64 d = .error (.explicit "Decimal(NaN).Uint64()")) := by
  have hp := Props.C10.uint64_panics_iff_nan d
  have hs := Props.C10.uint64_spec d
  cases hn : Gen.Decimal.IsNaN d
  · left
    refine ⟨rfl, ?_⟩
    cases h : Gen.Decimal.Uint64 d with
    | ok r => exact ⟨r, rfl⟩
    | error p => have := hp.1 ⟨p, h⟩; rw [hn] at this; cases this
  · right
    refine ⟨rfl, ?_⟩
    obtain ⟨p, h⟩ := hp.2 hn
    rw [hs] at h ⊢
    split at h
    · rfl
    · cases h

theorem Uint32_total (d : Gen.Decimal) :
    (Gen.Decimal.IsNaN d = false ∧ ∃ r, Gen.Decimal.Uint32 d = .ok r) ∨
    (Gen.Decimal.IsNaN d = true ∧
      Gen.Decimal.Uint32 d = .error (.explicit "Decimal(NaN).Uint32()")) := by
  have hp := Props.C10.uint32_panics_iff_nan d
  have hs := Props.C10.uint32_spec d
  cases hn : Gen.Decimal.IsNaN d
  · left
    refine ⟨rfl, ?_⟩
    cases h : Gen.Decimal.Uint32 d with
    | ok r => exact ⟨r, rfl⟩
    | error p => have := hp.1 ⟨p, h⟩; rw [hn] at this; cases this
  · right
    refine ⟨rfl, ?_⟩
    obtain ⟨p, h⟩ := hp.2 hn
    rw [hs] at h ⊢
    split at h
    · rfl
    · cases h

/-! ### NaN payload (C15): documented panic on non-NaN only -/

theorem Payload_total (d : Gen.Decimal) :
    (Gen.Decimal.IsNaN d = true ∧ Gen.Decimal.Payload_ d = .ok d.lo) ∨
    (Gen.Decimal.IsNaN d = false ∧
      Gen.Decimal.Payload_ d = .error (.explicit "Decimal(!NaN).Payload()")) := by
  rw [Props.C15.payload_eq]
  cases Gen.Decimal.IsNaN d <;> simp

/-! ### formatting kernel (C06, C07) -/

theorem digits_total (d : Gen.Decimal) (digs : Gen.digits) :
    ∃ r, Gen.Decimal.digits_ d digs = .ok r :=
  let ⟨r, h, _⟩ := Props.C06.digits_total d digs; ⟨r, h⟩

/-- `digits.round` on the records `Decimal.digits` produces (the only ones it is called with) -/
theorem digits_then_round_total (d : Gen.Decimal) (digs : Gen.digits) (prec : Int64) :
    ∃ r r', Gen.Decimal.digits_ d digs = .ok r ∧ Gen.digits.round r prec = .ok r' := by
  obtain ⟨r, h, hwf, _⟩ := Props.C06.digits_total d digs
  obtain ⟨r', h', _⟩ := Props.C07.digits_round_total r prec hwf (Props.C07.digits_expOK d digs r h)
  exact ⟨r, r', h, h'⟩

theorem parseFormat_total (s : Go.Bytes) (a : Gen.formatArgs) :
    ∃ r, Gen.parseFormat s a = .ok r := Props.C07.parseFormat_total s a

end Props.C20
