/-
  Property C15, the remaining universal clauses (continuation of D128/Props/C15.lean, which proves the
  special/zero dispatch of every operation):

    (1) "… and never yields NaN from finite operands otherwise",
    (2) "a NaN created by an invalid operation reports, through Payload, the operation and the operand
        classes that caused it",
    (3) "returns NaN when given NaN" for the operations not covered in C15.lean.

  Statements only, for ALL bit patterns; the proofs are in `D128/Proofs/NeverNaN*.lean` and combine the
  correctness theorems of C01–C05, C08–C11, C17–C19 with specification-side facts, or (exponential functions,
  `Pow`) a structural argument over the generated code.  Every `∃ r, f … = .ok r ∧ …` also says that the call
  terminates without panic.  `𝔳[d] = Spec.interp d.lo d.hi`, `cls d` = the operand class computed from the
  exported predicates (`NN.cls`: 0 NaN, 1 +0, 2 −0, 3 +finite, 4 −finite, 5 +Inf, 6 −Inf).

  1. NEVER NaN — in the strong form "`IsNaN result` = <exact condition on the operand classes>":
     `add_isNaN`, `sub_isNaN`, `mul_isNaN`, `quo_isNaN`, `quoRem_isNaN`          valid mode byte
        corollaries `add_finite_not_nan`, `sub_…`, `mul_…`, `quo_finite_not_nan` (not 0/0),
        `quoRem_finite_not_nan` (y ≠ 0) and the default-mode forms `…_default`
     `round_isNaN` (EVERY mode byte), `ceil_isNaN`, `floor_isNaN`, `pkg_round_isNaN`, `pkg_trunc_isNaN`,
        `pkg_ceil_isNaN`, `pkg_floor_isNaN`                                        NaN out ⇔ NaN in
     `new_not_nan`, `ldexp_isNaN`, `frexp_isNaN`, `canonical_isNaN`, `abs_isNaN`, `neg_isNaN`,
        `min_isNaN`, `max_isNaN`
     `sqrt_isNaN` (NaN ⇔ NaN or negative non-zero), `cbrt_isNaN`,
     `exp_isNaN`, `exp2_isNaN`, `exp10_isNaN`, `expm1_isNaN`                     EVERY `Globals` (all mode bytes)
     `log_isNaN_partial`, `log2_isNaN_partial`, `log10_isNaN_partial`            PARTIAL (hypothesis `NN.LogOk`)
     `log_family_special_isNaN`, `log1p_special_isNaN`                            the table-decided operands (unconditional)
     `pow_isNaN` (all bit patterns), `pow_finite_not_nan`, `pow_result_sign`, `rcpRange`
        — the hypothesis `PowPf.RcpRange` of C18b is DISCHARGED
     `fromInt64_not_nan`, …, `fromInt_not_nan`, `fromFloat64_isNaN`, `fromFloat32_isNaN`,
     `fromRat_isNaN`, `fromRat_finite_not_nan`, and the FINDING `fromRat_nan_of_huge` (FromRat of a finite
        rational whose numerator and denominator both exceed the Decimal range is NaN)
     `parse_numeral_not_nan`, `parseNumber_not_nan`
  2. INVALID PAYLOADS (beyond `inf_sub_inf_payload`, `zero_mul_inf_payload`, … of C15.lean):
     `add_payload`, `sub_payload`, `mul_payload`, `quo_payload`, `quoRem_payload`, `pow_payload`
        universal form: non-NaN operands, `IsNaN r = true → Payload r = op | cls d << 8 | cls o << 16`
     `quoRem_invalid_payload` (÷ 0, Inf ÷ …; every mode byte), `log_invalid_payload`, `log2_…`, `log10_…`,
     `log1p_invalid_payload`, `sqrt_invalid_payload`, `pow_invalid_payload`, `elem_payload`
     `payload_string_binary`, `payload_string_unary`, `payload_string_of_invalid2/1`  the text of `Payload.String`
  3. NaN PROPAGATION: `frexp_nan`, `ldexp_nan`, `abs_nan`, `neg_nan`, `canonical_nan` (payload dropped, as
     documented), `pkg_round_nan`, `pkg_trunc_nan`, `pkg_ceil_nan`, `pkg_floor_nan`, `pow_nan`,
     `float64_nan`, `float32_nan`, `fromFloat64_nan`, `fromFloat32_nan`

  4. CLASSIFICATION: `classify_exactly_one`, `predicates_agree`, `isInf_exported`, `cls_zero_iff_nan`

  NOT covered: `Log1p` on its general path and the hypothesis `NN.LogOk` of the three logarithms (both need
  the accuracy analysis of `decomposed192.log`/`log1p`); the five arithmetic operations, `New`, `Ldexp`,
  the conversions under an INVALID mode byte (≥ 6; totality is `Props.C20b`).
-/
import D128.Proofs.NeverNaNArith
import D128.Proofs.NeverNaNConv
import D128.Proofs.NeverNaNRoot
import D128.Proofs.NeverNaNRootAll
import D128.Proofs.NeverNaNPayload
import D128.Proofs.NeverNaNPayloadText
import D128.Proofs.NeverNaNPow
import D128.Proofs.NeverNaNExp
import D128.Proofs.NeverNaNExp2
import D128.Proofs.NeverNaNExp10
import D128.Proofs.NeverNaNLog
set_option autoImplicit false

namespace Props.C15b
open NN

/-- the value a bit pattern denotes -/
local notation "𝔳[" d "]" => Spec.interp (Gen.Decimal.lo d) (Gen.Decimal.hi d)

/-! ## 1. Never NaN from finite operands

### 1a. the arithmetic operations: exact NaN condition for all bit patterns -/

/-- `d + o` is a NaN exactly when an operand is a NaN or the operands are infinities of opposite sign -/
theorem add_isNaN (d o : Gen.Decimal) (rm : UInt8) (m : Spec.Mode)
    (hm : Spec.Mode.ofNat? rm.toNat = some m) :
    ∃ r, Gen.Decimal.AddWithMode d o rm = .ok r ∧
      Gen.Decimal.IsNaN r = (Gen.Decimal.IsNaN d || Gen.Decimal.IsNaN o ||
        (Gen.Decimal.isInf d && Gen.Decimal.isInf o &&
          (Gen.Decimal.Signbit d != Gen.Decimal.Signbit o))) := AddWithMode_isNaN d o rm m hm

/-- `d − o`: … infinities of the same sign -/
theorem sub_isNaN (d o : Gen.Decimal) (rm : UInt8) (m : Spec.Mode)
    (hm : Spec.Mode.ofNat? rm.toNat = some m) :
    ∃ r, Gen.Decimal.SubWithMode d o rm = .ok r ∧
      Gen.Decimal.IsNaN r = (Gen.Decimal.IsNaN d || Gen.Decimal.IsNaN o ||
        (Gen.Decimal.isInf d && Gen.Decimal.isInf o &&
          (Gen.Decimal.Signbit d == Gen.Decimal.Signbit o))) := SubWithMode_isNaN d o rm m hm

/-- `d × o`: … a zero times an infinity -/
theorem mul_isNaN (d o : Gen.Decimal) (rm : UInt8) (m : Spec.Mode)
    (hm : Spec.Mode.ofNat? rm.toNat = some m) :
    ∃ r, Gen.Decimal.MulWithMode d o rm = .ok r ∧
      Gen.Decimal.IsNaN r = (Gen.Decimal.IsNaN d || Gen.Decimal.IsNaN o ||
        (Gen.Decimal.isInf d && Gen.Decimal.IsZero o) ||
        (Gen.Decimal.IsZero d && Gen.Decimal.isInf o)) := MulWithMode_isNaN d o rm m hm

/-- `d ÷ o`: … Inf ÷ Inf and 0 ÷ 0 -/
theorem quo_isNaN (d o : Gen.Decimal) (rm : UInt8) (m : Spec.Mode)
    (hm : Spec.Mode.ofNat? rm.toNat = some m) :
    ∃ r, Gen.Decimal.QuoWithMode d o rm = .ok r ∧
      Gen.Decimal.IsNaN r = (Gen.Decimal.IsNaN d || Gen.Decimal.IsNaN o ||
        (Gen.Decimal.isInf d && Gen.Decimal.isInf o) ||
        (Gen.Decimal.IsZero d && Gen.Decimal.IsZero o)) := QuoWithMode_isNaN d o rm m hm

/-- `QuoRem`: the quotient is a NaN as for `Quo`; the remainder is a NaN exactly when an operand is a NaN,
    the dividend is infinite or the divisor is zero -/
theorem quoRem_isNaN (d o : Gen.Decimal) (rm : UInt8) (m : Spec.Mode)
    (hm : Spec.Mode.ofNat? rm.toNat = some m) :
    ∃ q r, Gen.Decimal.QuoRemWithMode d o rm = .ok (q, r) ∧
      Gen.Decimal.IsNaN q = (Gen.Decimal.IsNaN d || Gen.Decimal.IsNaN o ||
        (Gen.Decimal.isInf d && Gen.Decimal.isInf o) ||
        (Gen.Decimal.IsZero d && Gen.Decimal.IsZero o)) ∧
      Gen.Decimal.IsNaN r = (Gen.Decimal.IsNaN d || Gen.Decimal.IsNaN o ||
        Gen.Decimal.isInf d || Gen.Decimal.IsZero o) := QuoRemWithMode_isNaN d o rm m hm

/-- finite operands: `Add` never returns a NaN -/
theorem add_finite_not_nan (d o : Gen.Decimal) (rm : UInt8) (m : Spec.Mode)
    (hm : Spec.Mode.ofNat? rm.toNat = some m)
    (hd : Gen.Decimal.isSpecial d = false) (ho : Gen.Decimal.isSpecial o = false) :
    ∃ r, Gen.Decimal.AddWithMode d o rm = .ok r ∧ Gen.Decimal.IsNaN r = false := by
  obtain ⟨r, hr, hn⟩ := add_isNaN d o rm m hm
  refine ⟨r, hr, ?_⟩
  rw [hn, (not_nan_of_not_special d hd).1, (not_nan_of_not_special o ho).1,
    (not_nan_of_not_special d hd).2]; rfl

theorem sub_finite_not_nan (d o : Gen.Decimal) (rm : UInt8) (m : Spec.Mode)
    (hm : Spec.Mode.ofNat? rm.toNat = some m)
    (hd : Gen.Decimal.isSpecial d = false) (ho : Gen.Decimal.isSpecial o = false) :
    ∃ r, Gen.Decimal.SubWithMode d o rm = .ok r ∧ Gen.Decimal.IsNaN r = false := by
  obtain ⟨r, hr, hn⟩ := sub_isNaN d o rm m hm
  refine ⟨r, hr, ?_⟩
  rw [hn, (not_nan_of_not_special d hd).1, (not_nan_of_not_special o ho).1,
    (not_nan_of_not_special d hd).2]; rfl

theorem mul_finite_not_nan (d o : Gen.Decimal) (rm : UInt8) (m : Spec.Mode)
    (hm : Spec.Mode.ofNat? rm.toNat = some m)
    (hd : Gen.Decimal.isSpecial d = false) (ho : Gen.Decimal.isSpecial o = false) :
    ∃ r, Gen.Decimal.MulWithMode d o rm = .ok r ∧ Gen.Decimal.IsNaN r = false := by
  obtain ⟨r, hr, hn⟩ := mul_isNaN d o rm m hm
  refine ⟨r, hr, ?_⟩
  rw [hn, (not_nan_of_not_special d hd).1, (not_nan_of_not_special o ho).1,
    (not_nan_of_not_special d hd).2, (not_nan_of_not_special o ho).2]; simp

/-- finite operands, not 0 ÷ 0 (the listed invalid case): `Quo` never returns a NaN -/
theorem quo_finite_not_nan (d o : Gen.Decimal) (rm : UInt8) (m : Spec.Mode)
    (hm : Spec.Mode.ofNat? rm.toNat = some m)
    (hd : Gen.Decimal.isSpecial d = false) (ho : Gen.Decimal.isSpecial o = false)
    (hz : Gen.Decimal.IsZero d = false ∨ Gen.Decimal.IsZero o = false) :
    ∃ r, Gen.Decimal.QuoWithMode d o rm = .ok r ∧ Gen.Decimal.IsNaN r = false := by
  obtain ⟨r, hr, hn⟩ := quo_isNaN d o rm m hm
  refine ⟨r, hr, ?_⟩
  rw [hn, (not_nan_of_not_special d hd).1, (not_nan_of_not_special o ho).1,
    (not_nan_of_not_special d hd).2]
  rcases hz with h | h <;> rw [h] <;> simp

/-- finite operands, non-zero divisor: neither result of `QuoRem` is a NaN -/
theorem quoRem_finite_not_nan (d o : Gen.Decimal) (rm : UInt8) (m : Spec.Mode)
    (hm : Spec.Mode.ofNat? rm.toNat = some m)
    (hd : Gen.Decimal.isSpecial d = false) (ho : Gen.Decimal.isSpecial o = false)
    (hz : Gen.Decimal.IsZero o = false) :
    ∃ q r, Gen.Decimal.QuoRemWithMode d o rm = .ok (q, r) ∧
      Gen.Decimal.IsNaN q = false ∧ Gen.Decimal.IsNaN r = false := by
  obtain ⟨q, r, hr, hq, hn⟩ := quoRem_isNaN d o rm m hm
  refine ⟨q, r, hr, ?_, ?_⟩
  · rw [hq, (not_nan_of_not_special d hd).1, (not_nan_of_not_special o ho).1,
      (not_nan_of_not_special d hd).2, hz]; simp
  · rw [hn, (not_nan_of_not_special d hd).1, (not_nan_of_not_special o ho).1,
      (not_nan_of_not_special d hd).2, hz]; rfl

/-- the default-mode entry points -/
theorem add_finite_not_nan_default (g : Globals) (d o : Gen.Decimal) (m : Spec.Mode)
    (hm : Spec.Mode.ofNat? g.DefaultRoundingMode.toNat = some m)
    (hd : Gen.Decimal.isSpecial d = false) (ho : Gen.Decimal.isSpecial o = false) :
    ∃ r, Gen.Decimal.Add g d o = .ok r ∧ Gen.Decimal.IsNaN r = false := by
  rw [Props.C15.add_eq_withMode]; exact add_finite_not_nan d o _ m hm hd ho
theorem sub_finite_not_nan_default (g : Globals) (d o : Gen.Decimal) (m : Spec.Mode)
    (hm : Spec.Mode.ofNat? g.DefaultRoundingMode.toNat = some m)
    (hd : Gen.Decimal.isSpecial d = false) (ho : Gen.Decimal.isSpecial o = false) :
    ∃ r, Gen.Decimal.Sub g d o = .ok r ∧ Gen.Decimal.IsNaN r = false := by
  rw [Props.C15.sub_eq_withMode]; exact sub_finite_not_nan d o _ m hm hd ho
theorem mul_finite_not_nan_default (g : Globals) (d o : Gen.Decimal) (m : Spec.Mode)
    (hm : Spec.Mode.ofNat? g.DefaultRoundingMode.toNat = some m)
    (hd : Gen.Decimal.isSpecial d = false) (ho : Gen.Decimal.isSpecial o = false) :
    ∃ r, Gen.Decimal.Mul g d o = .ok r ∧ Gen.Decimal.IsNaN r = false := by
  rw [Props.C15.mul_eq_withMode]; exact mul_finite_not_nan d o _ m hm hd ho
theorem quo_finite_not_nan_default (g : Globals) (d o : Gen.Decimal) (m : Spec.Mode)
    (hm : Spec.Mode.ofNat? g.DefaultRoundingMode.toNat = some m)
    (hd : Gen.Decimal.isSpecial d = false) (ho : Gen.Decimal.isSpecial o = false)
    (hz : Gen.Decimal.IsZero d = false ∨ Gen.Decimal.IsZero o = false) :
    ∃ r, Gen.Decimal.Quo g d o = .ok r ∧ Gen.Decimal.IsNaN r = false := by
  rw [Props.C15.quo_eq_withMode]; exact quo_finite_not_nan d o _ m hm hd ho hz
theorem quoRem_finite_not_nan_default (g : Globals) (d o : Gen.Decimal) (m : Spec.Mode)
    (hm : Spec.Mode.ofNat? g.DefaultRoundingMode.toNat = some m)
    (hd : Gen.Decimal.isSpecial d = false) (ho : Gen.Decimal.isSpecial o = false)
    (hz : Gen.Decimal.IsZero o = false) :
    ∃ q r, Gen.Decimal.QuoRem g d o = .ok (q, r) ∧
      Gen.Decimal.IsNaN q = false ∧ Gen.Decimal.IsNaN r = false := by
  rw [Props.C15.quoRem_eq_withMode]; exact quoRem_finite_not_nan d o _ m hm hd ho hz

/-- the hypotheses are satisfiable: `1e6144 + 1e6144` (overflows to +Inf, not to NaN), `-7 ÷ 3e-3` -/
example := add_finite_not_nan ⟨1, 0x5ffe000000000000 + 33⟩ ⟨1, 0x5ffe000000000000 + 33⟩ 0 .nearestEven rfl
  (by decide) (by decide)
example := quoRem_finite_not_nan ⟨7, 0xb040000000000000⟩ ⟨3, 0x303a000000000000⟩ 4 .toNegInf rfl
  (by decide) (by decide) (by decide)

/-! ### 1b. quantisation, scaling, selection: NaN out ⇔ NaN in -/

/-- `Round` for EVERY mode byte (valid or not) -/
theorem round_isNaN (d : Gen.Decimal) (dp : Int64) (rm : UInt8) :
    ∃ r, Gen.Decimal.Round d dp rm = .ok r ∧ Gen.Decimal.IsNaN r = Gen.Decimal.IsNaN d :=
  Round_isNaN d dp rm
theorem ceil_isNaN (d : Gen.Decimal) (dp : Int64) :
    ∃ r, Gen.Decimal.Ceil d dp = .ok r ∧ Gen.Decimal.IsNaN r = Gen.Decimal.IsNaN d := Ceil_isNaN d dp
theorem floor_isNaN (d : Gen.Decimal) (dp : Int64) :
    ∃ r, Gen.Decimal.Floor d dp = .ok r ∧ Gen.Decimal.IsNaN r = Gen.Decimal.IsNaN d := Floor_isNaN d dp
theorem pkg_round_isNaN (d : Gen.Decimal) :
    ∃ r, Gen.Round d = .ok r ∧ Gen.Decimal.IsNaN r = Gen.Decimal.IsNaN d := pkgRound_isNaN d
theorem pkg_trunc_isNaN (d : Gen.Decimal) :
    ∃ r, Gen.Trunc d = .ok r ∧ Gen.Decimal.IsNaN r = Gen.Decimal.IsNaN d := pkgTrunc_isNaN d
theorem pkg_ceil_isNaN (d : Gen.Decimal) :
    ∃ r, Gen.Ceil d = .ok r ∧ Gen.Decimal.IsNaN r = Gen.Decimal.IsNaN d := pkgCeil_isNaN d
theorem pkg_floor_isNaN (d : Gen.Decimal) :
    ∃ r, Gen.Floor d = .ok r ∧ Gen.Decimal.IsNaN r = Gen.Decimal.IsNaN d := pkgFloor_isNaN d

/-- `New(sig, exp)` is never a NaN (all `int64 × int`) -/
theorem new_not_nan (g : Globals) (sig exp : Int64) (m : Spec.Mode)
    (hm : Spec.Mode.ofNat? g.DefaultRoundingMode.toNat = some m) :
    ∃ r, Gen.New g sig exp = .ok r ∧ Gen.Decimal.IsNaN r = false := New_not_nan g sig exp m hm
theorem ldexp_isNaN (g : Globals) (d : Gen.Decimal) (exp : Int64) (m : Spec.Mode)
    (hm : Spec.Mode.ofNat? g.DefaultRoundingMode.toNat = some m) :
    ∃ r, Gen.Ldexp g d exp = .ok r ∧ Gen.Decimal.IsNaN r = Gen.Decimal.IsNaN d := Ldexp_isNaN g d exp m hm
theorem frexp_isNaN (d : Gen.Decimal) :
    ∃ f e, Gen.Frexp d = .ok (f, e) ∧ Gen.Decimal.IsNaN f = Gen.Decimal.IsNaN d := Frexp_isNaN d
theorem canonical_isNaN (d : Gen.Decimal) :
    ∃ r, Gen.Decimal.Canonical d = .ok r ∧ Gen.Decimal.IsNaN r = Gen.Decimal.IsNaN d := Canonical_isNaN d
theorem abs_isNaN (d : Gen.Decimal) : Gen.Decimal.IsNaN (Gen.Abs d) = Gen.Decimal.IsNaN d := Abs_isNaN d
theorem neg_isNaN (d : Gen.Decimal) : Gen.Decimal.IsNaN (Gen.Decimal.Neg d) = Gen.Decimal.IsNaN d :=
  Neg_isNaN d
theorem min_isNaN (d o : Gen.Decimal) :
    ∃ r, Gen.Min d o = .ok r ∧ Gen.Decimal.IsNaN r = (Gen.Decimal.IsNaN d || Gen.Decimal.IsNaN o) :=
  Min_isNaN d o
theorem max_isNaN (d o : Gen.Decimal) :
    ∃ r, Gen.Max d o = .ok r ∧ Gen.Decimal.IsNaN r = (Gen.Decimal.IsNaN d || Gen.Decimal.IsNaN o) :=
  Max_isNaN d o

/-! ### 1c. roots -/

/-- `Sqrt d` is a NaN exactly when `d` is a NaN or negative and not a zero (−Inf included) — every `Globals`,
    invalid mode bytes included -/
theorem sqrt_isNaN (g : Globals) (d : Gen.Decimal) :
    ∃ r, Gen.Sqrt g d = .ok r ∧
      Gen.Decimal.IsNaN r =
        (Gen.Decimal.IsNaN d || (Gen.Decimal.Signbit d && !Gen.Decimal.IsZero d)) := Sqrt_isNaN_all g d
theorem cbrt_isNaN (g : Globals) (d : Gen.Decimal) :
    ∃ r, Gen.Cbrt g d = .ok r ∧ Gen.Decimal.IsNaN r = Gen.Decimal.IsNaN d := Cbrt_isNaN_all g d

example := sqrt_isNaN ⟨77⟩ ⟨2, 0x3040000000000000⟩

/-! ### 1d. exponential functions — every `Globals`, invalid mode bytes included -/

theorem exp_isNaN (g : Globals) (d : Gen.Decimal) :
    ∃ r, Gen.Exp g d = .ok r ∧ Gen.Decimal.IsNaN r = Gen.Decimal.IsNaN d := Exp_isNaN g d
theorem exp2_isNaN (g : Globals) (d : Gen.Decimal) :
    ∃ r, Gen.Exp2 g d = .ok r ∧ Gen.Decimal.IsNaN r = Gen.Decimal.IsNaN d := Exp2_isNaN g d
theorem exp10_isNaN (g : Globals) (d : Gen.Decimal) :
    ∃ r, Gen.Exp10 g d = .ok r ∧ Gen.Decimal.IsNaN r = Gen.Decimal.IsNaN d := Exp10_isNaN g d
theorem expm1_isNaN (g : Globals) (d : Gen.Decimal) :
    ∃ r, Gen.Expm1 g d = .ok r ∧ Gen.Decimal.IsNaN r = Gen.Decimal.IsNaN d := Expm1_isNaN g d

/-- non-trivial instances: `Exp(-745.13)` under an invalid mode byte, `Exp2(-300)` toward zero -/
example := exp_isNaN ⟨200⟩ ⟨74513, 0xb03c000000000000⟩
example := exp2_isNaN ⟨2⟩ ⟨300, 0xb040000000000000⟩

/-! ### 1e. logarithms — PARTIAL: the general path needs `NN.LogOk d` (the result of `decomposed192.log` is
not the degenerate pair "zero significand, flag −1" and its exponent is within ±13700); special operands,
zeros and negative arguments are unconditional (`NN.log_family_special_isNaN`). -/

theorem log_isNaN_partial (g : Globals) (d r : Gen.Decimal) (hok : LogOk d) (hr : Gen.Log g d = .ok r) :
    Gen.Decimal.IsNaN r = (Gen.Decimal.IsNaN d || (Gen.Decimal.Signbit d && !Gen.Decimal.IsZero d)) :=
  Log_isNaN_partial g d r hok hr
theorem log2_isNaN_partial (g : Globals) (d r : Gen.Decimal) (hok : LogOk d) (hr : Gen.Log2 g d = .ok r) :
    Gen.Decimal.IsNaN r = (Gen.Decimal.IsNaN d || (Gen.Decimal.Signbit d && !Gen.Decimal.IsZero d)) :=
  Log2_isNaN_partial g d r hok hr
theorem log10_isNaN_partial (g : Globals) (d r : Gen.Decimal) (hok : LogOk d) (hr : Gen.Log10 g d = .ok r) :
    Gen.Decimal.IsNaN r = (Gen.Decimal.IsNaN d || (Gen.Decimal.Signbit d && !Gen.Decimal.IsZero d)) :=
  Log10_isNaN_partial g d r hok hr

/-- unconditional part: a NaN, ±Inf, ±0 or negative operand of `Log`, `Log2`, `Log10` -/
theorem log_family_special_isNaN (fn : Spec.Fn) (hf : fn = .log ∨ fn = .log2 ∨ fn = .log10) (g : Globals)
    (d : Gen.Decimal)
    (h : Gen.Decimal.isSpecial d = true ∨ Gen.Decimal.IsZero d = true ∨ Gen.Decimal.Signbit d = true) :
    ∃ r, Props.C15.impl fn g d = .ok r ∧
      Gen.Decimal.IsNaN r = (Gen.Decimal.IsNaN d || (Gen.Decimal.Signbit d && !Gen.Decimal.IsZero d)) :=
  NN.log_family_special_isNaN fn hf g d h

/-- `Log1p` on every operand the table `Spec.specialCase .log1p` decides (NaN, ±Inf, ±0, −1, below −1), every
    `Globals`: the result is a NaN exactly for a NaN, −Inf and a finite operand below −1.  (The general path
    of `Log1p` is NOT covered.) -/
theorem log1p_special_isNaN (g : Globals) (d : Gen.Decimal) (w : Spec.Val)
    (h : Spec.specialCase .log1p 𝔳[d] = some w) :
    ∃ r, Gen.Log1p g d = .ok r ∧
      Gen.Decimal.IsNaN r = ((𝔳[d]).isNaN || ((𝔳[d]).neg && ((𝔳[d]).isInf || magGtOne 𝔳[d]))) := by
  obtain ⟨r, hr, hn⟩ := Log1p_special_isNaN g d w h
  exact ⟨r, hr, by rw [hn, table_log1p _ w h]⟩

/-! ### 1f. Pow -/

/-- the hypothesis `PowPf.RcpRange` of `Props.C18b.pow_result_sign_of_rcpRange`,
    `pow_neg_base_int_of_rcpRange`, `pow_finite_never_nan_of_rcpRange` holds -/
theorem rcpRange : PowPf.RcpRange := NN.rcpRange

/-- all bit patterns, valid mode byte: the result is a NaN exactly when the specification table
    `Spec.powSpecial` prescribes one (`NN.powNaN`; `false` wherever the table does not decide) -/
theorem pow_isNaN (d o : Gen.Decimal) (rm : UInt8) (m : Spec.Mode)
    (hm : Spec.Mode.ofNat? rm.toNat = some m) :
    ∃ r, Gen.Decimal.PowWithMode d o rm = .ok r ∧ Gen.Decimal.IsNaN r = powNaN m 𝔳[d] 𝔳[o] :=
  PowWithMode_isNaN d o rm m hm

/-- finite operands never give a NaN, except a negative non-zero base with a non-zero non-integer exponent -/
theorem pow_finite_not_nan (d o : Gen.Decimal) (rm : UInt8) (m : Spec.Mode)
    (hm : Spec.Mode.ofNat? rm.toNat = some m) (xn : Bool) (xc : Nat) (xe : Int) (yn : Bool) (yc : Nat)
    (ye : Int) (hx : 𝔳[d] = .fin xn xc xe) (hy : 𝔳[o] = .fin yn yc ye)
    (hexc : ¬ (xn = true ∧ xc ≠ 0 ∧ yc ≠ 0 ∧ PowPf.isIntQ (Spec.mag yc ye) = false)) :
    ∃ r, Gen.Decimal.PowWithMode d o rm = .ok r ∧ Gen.Decimal.IsNaN r = false :=
  NN.pow_finite_not_nan d o rm m hm xn xc xe yn yc ye hx hy hexc

/-- EVERY mode byte: sign of the result (and no NaN) for finite non-zero x, finite y ∉ {0, ±1} -/
theorem pow_result_sign (d o : Gen.Decimal) (rm : UInt8) (xn : Bool) (xc : Nat) (xe : Int)
    (yn : Bool) (yc : Nat) (ye : Int)
    (hx : 𝔳[d] = .fin xn xc xe) (hx0 : xc ≠ 0) (hy : 𝔳[o] = .fin yn yc ye) (hy0 : yc ≠ 0)
    (hy1 : Spec.mag yc ye ≠ 1) (hint : xn = false ∨ PowPf.isIntQ (Spec.mag yc ye) = true) :
    ∃ r, Gen.Decimal.PowWithMode d o rm = .ok r ∧
      Gen.Decimal.Signbit r = (xn && PowPf.oddIntQ (Spec.mag yc ye)) ∧ Gen.Decimal.IsNaN r = false :=
  NN.pow_result_sign d o rm xn xc xe yn yc ye hx hx0 hy hy0 hy1 hint

/-! ### 1g. conversions and the parser -/

theorem fromInt64_not_nan (i : Int64) : Gen.Decimal.IsNaN (Gen.FromInt64 i) = false := FromInt64_not_nan i
theorem fromInt32_not_nan (i : Int32) : Gen.Decimal.IsNaN (Gen.FromInt32 i) = false := FromInt32_not_nan i
theorem fromUint64_not_nan (i : UInt64) : Gen.Decimal.IsNaN (Gen.FromUint64 i) = false :=
  FromUint64_not_nan i
theorem fromUint32_not_nan (i : UInt32) : Gen.Decimal.IsNaN (Gen.FromUint32 i) = false :=
  FromUint32_not_nan i

theorem fromInt_not_nan (g : Globals) (i : Int) (m : Spec.Mode)
    (hm : Spec.Mode.ofNat? g.DefaultRoundingMode.toNat = some m)
    (hbits : Go.Big.bitLen i.natAbs < 2 ^ 63) :
    ∃ r, Gen.FromInt g i = .ok r ∧ Gen.Decimal.IsNaN r = false := FromInt_not_nan g i m hm hbits

theorem fromFloat64_isNaN (g : Globals) (f : Go.F64) (m : Spec.Mode)
    (hm : Spec.Mode.ofNat? g.DefaultRoundingMode.toNat = some m) :
    ∃ r, Gen.FromFloat64 g f = .ok r ∧ Gen.Decimal.IsNaN r = f.isNaN := FromFloat64_isNaN g f m hm
theorem fromFloat32_isNaN (g : Globals) (f : Go.F32) (m : Spec.Mode)
    (hm : Spec.Mode.ofNat? g.DefaultRoundingMode.toNat = some m) :
    ∃ r, Gen.FromFloat32 g f = .ok r ∧ Gen.Decimal.IsNaN r = f.isNaN := FromFloat32_isNaN g f m hm

/-- `FromRat r` is a NaN exactly when BOTH `FromInt(num)` and `FromInt(den)` overflow to an infinity -/
theorem fromRat_isNaN (g : Globals) (r : Rat) (m : Spec.Mode)
    (hm : Spec.Mode.ofNat? g.DefaultRoundingMode.toNat = some m)
    (hn : Go.Big.bitLen r.num.natAbs < 2 ^ 63) (hd : Go.Big.bitLen r.den < 2 ^ 63) :
    ∃ d, Gen.FromRat g r = .ok d ∧
      Gen.Decimal.IsNaN d =
        ((Spec.roundTo m (decide (r.num < 0)) (r.num.natAbs : ℚ)).isInf &&
         (Spec.roundTo m false (r.den : ℚ)).isInf) := FromRat_isNaN g r m hm hn hd

/-- … hence never when the numerator or the denominator is at most the largest finite Decimal -/
theorem fromRat_finite_not_nan (g : Globals) (r : Rat) (m : Spec.Mode)
    (hm : Spec.Mode.ofNat? g.DefaultRoundingMode.toNat = some m)
    (hn : Go.Big.bitLen r.num.natAbs < 2 ^ 63) (hd : Go.Big.bitLen r.den < 2 ^ 63)
    (hsmall : (r.num.natAbs : ℚ) ≤ (Spec.Cmax : ℚ) * (10 : ℚ) ^ Spec.Emax ∨
      (r.den : ℚ) ≤ (Spec.Cmax : ℚ) * (10 : ℚ) ^ Spec.Emax) :
    ∃ d, Gen.FromRat g r = .ok d ∧ Gen.Decimal.IsNaN d = false := FromRat_not_nan g r m hm hn hd hsmall

/-- **FINDING** — "never NaN from finite operands" is FALSE for `FromRat`: when `|num|` and `den` are both
    ≥ `(Cmax+1)·10^6111` (e.g. `(10^6200+1)/10^6200 = 1.000…`; `#eval` of the generated code returns
    `{lo := 328976, hi := 0x7c00000000000000}`, payload text "Quo(Infinite, Infinite)") the result is the NaN
    of the invalid operation `Inf.Quo(Inf)`.  Expected: the correctly rounded quotient (here 1). -/
theorem fromRat_nan_of_huge (g : Globals) (r : Rat) (m : Spec.Mode)
    (hm : Spec.Mode.ofNat? g.DefaultRoundingMode.toNat = some m)
    (hn : Go.Big.bitLen r.num.natAbs < 2 ^ 63) (hd : Go.Big.bitLen r.den < 2 ^ 63)
    (hnum : ((Spec.Cmax : ℚ) + 1) * (10 : ℚ) ^ Spec.Emax ≤ (r.num.natAbs : ℚ))
    (hden : ((Spec.Cmax : ℚ) + 1) * (10 : ℚ) ^ Spec.Emax ≤ (r.den : ℚ)) :
    ∃ d, Gen.FromRat g r = .ok d ∧ Gen.Decimal.IsNaN d = true ∧
      Gen.Decimal.Payload_ d =
        .ok (Spec.Op.quo.code ||| (if r.num < 0 then (6 : UInt64) else 5) <<< 8 ||| (5 : UInt64) <<< 16) :=
  FromRat_nan_of_huge g r m hm hn hd hnum hden

/-- the hypotheses of the finding are satisfiable: `FromRat((10^6200 + 1) / 10^6200)`, default mode -/
example (g : Globals) (hg : g.DefaultRoundingMode = 0) :
    ∃ d, Gen.FromRat g bigR = .ok d ∧ Gen.Decimal.IsNaN d = true := FromRat_bigR_nan g hg

/-- every input that the grammar reads as a numeral parses to a non-NaN Decimal -/
theorem parse_numeral_not_nan (g : Globals) (d : Go.Bytes) (op : UInt64) (m : Spec.Mode)
    (hm : Spec.Mode.ofNat? g.DefaultRoundingMode.toNat = some m) (hsz : d.size + 6216 ≤ 2 ^ 58)
    (neg : Bool) (n : Nat) (sc : Int)
    (h : Spec.readLiteral true true (Props.C05.chars d) = some (.num neg n sc)) :
    ∃ v e, Gen.parse g d op = .ok (v, e) ∧ Gen.Decimal.IsNaN v = false :=
  NN.parse_numeral_not_nan g d op m hm hsz neg n sc h
theorem parseNumber_not_nan (g : Globals) (d : Go.Bytes) (neg sep : Bool) (m : Spec.Mode)
    (hm : Spec.Mode.ofNat? g.DefaultRoundingMode.toNat = some m) (hsz : d.size + 6216 ≤ 2 ^ 58)
    (n : Nat) (sc : Int) (h : Spec.readNumber sep (Props.C05.chars d) = some (n, sc)) :
    ∃ v e, Gen.parseNumber g d neg sep = .ok (v, e) ∧ Gen.Decimal.IsNaN v = false :=
  NN.parseNumber_not_nan g d neg sep m hm hsz n sc h

/-! ## 2. The payload of a NaN created by an invalid operation

Universal form: for non-NaN operands, WHENEVER the result is a NaN its payload is
`op | cls d << 8 | cls o << 16`.  (Together with section 1 this says exactly which operand classes produce it.) -/

theorem add_payload (d o : Gen.Decimal) (rm : UInt8) (m : Spec.Mode)
    (hm : Spec.Mode.ofNat? rm.toNat = some m)
    (hd : Gen.Decimal.IsNaN d = false) (ho : Gen.Decimal.IsNaN o = false) :
    ∃ r, Gen.Decimal.AddWithMode d o rm = .ok r ∧
      (Gen.Decimal.IsNaN r = true →
        Gen.Decimal.Payload_ r = .ok (Spec.Op.add.code ||| cls d <<< 8 ||| cls o <<< 16)) :=
  AddWithMode_payload d o rm m hm hd ho
theorem sub_payload (d o : Gen.Decimal) (rm : UInt8) (m : Spec.Mode)
    (hm : Spec.Mode.ofNat? rm.toNat = some m)
    (hd : Gen.Decimal.IsNaN d = false) (ho : Gen.Decimal.IsNaN o = false) :
    ∃ r, Gen.Decimal.SubWithMode d o rm = .ok r ∧
      (Gen.Decimal.IsNaN r = true →
        Gen.Decimal.Payload_ r = .ok (Spec.Op.sub.code ||| cls d <<< 8 ||| cls o <<< 16)) :=
  SubWithMode_payload d o rm m hm hd ho
theorem mul_payload (d o : Gen.Decimal) (rm : UInt8) (m : Spec.Mode)
    (hm : Spec.Mode.ofNat? rm.toNat = some m)
    (hd : Gen.Decimal.IsNaN d = false) (ho : Gen.Decimal.IsNaN o = false) :
    ∃ r, Gen.Decimal.MulWithMode d o rm = .ok r ∧
      (Gen.Decimal.IsNaN r = true →
        Gen.Decimal.Payload_ r = .ok (Spec.Op.mul.code ||| cls d <<< 8 ||| cls o <<< 16)) :=
  MulWithMode_payload d o rm m hm hd ho
theorem quo_payload (d o : Gen.Decimal) (rm : UInt8) (m : Spec.Mode)
    (hm : Spec.Mode.ofNat? rm.toNat = some m)
    (hd : Gen.Decimal.IsNaN d = false) (ho : Gen.Decimal.IsNaN o = false) :
    ∃ r, Gen.Decimal.QuoWithMode d o rm = .ok r ∧
      (Gen.Decimal.IsNaN r = true →
        Gen.Decimal.Payload_ r = .ok (Spec.Op.quo.code ||| cls d <<< 8 ||| cls o <<< 16)) :=
  QuoWithMode_payload d o rm m hm hd ho
theorem quoRem_payload (d o : Gen.Decimal) (rm : UInt8) (m : Spec.Mode)
    (hm : Spec.Mode.ofNat? rm.toNat = some m)
    (hd : Gen.Decimal.IsNaN d = false) (ho : Gen.Decimal.IsNaN o = false) :
    ∃ q r, Gen.Decimal.QuoRemWithMode d o rm = .ok (q, r) ∧
      (Gen.Decimal.IsNaN q = true →
        Gen.Decimal.Payload_ q = .ok (Spec.Op.quoRem.code ||| cls d <<< 8 ||| cls o <<< 16)) ∧
      (Gen.Decimal.IsNaN r = true →
        Gen.Decimal.Payload_ r = .ok (Spec.Op.quoRem.code ||| cls d <<< 8 ||| cls o <<< 16)) :=
  QuoRemWithMode_payload d o rm m hm hd ho
theorem pow_payload (d o : Gen.Decimal) (rm : UInt8) (m : Spec.Mode)
    (hm : Spec.Mode.ofNat? rm.toNat = some m)
    (hd : Gen.Decimal.IsNaN d = false) (ho : Gen.Decimal.IsNaN o = false) :
    ∃ r, Gen.Decimal.PowWithMode d o rm = .ok r ∧
      (Gen.Decimal.IsNaN r = true →
        Gen.Decimal.Payload_ r = .ok (Spec.Op.pow.code ||| cls d <<< 8 ||| cls o <<< 16)) :=
  PowWithMode_created d o rm m hm hd ho

/-- `QuoRem` of an infinity or by a zero — EVERY mode byte: the remainder (and for Inf ÷ Inf, 0 ÷ 0 also the
    quotient) is the NaN with payload `quoRem | cls d << 8 | cls o << 16` -/
theorem quoRem_invalid_payload (d o : Gen.Decimal) (rm : UInt8)
    (hd : Gen.Decimal.IsNaN d = false) (ho : Gen.Decimal.IsNaN o = false)
    (h : Gen.Decimal.isInf d = true ∨ Gen.Decimal.IsZero o = true) :
    ∃ q r, Gen.Decimal.QuoRemWithMode d o rm = .ok (q, r) ∧
      Gen.Decimal.IsNaN r = true ∧
      Gen.Decimal.Payload_ r = .ok (Spec.Op.quoRem.code ||| cls d <<< 8 ||| cls o <<< 16) ∧
      (((Gen.Decimal.isInf d = true ∧ Gen.Decimal.isInf o = true) ∨
        (Gen.Decimal.IsZero d = true ∧ Gen.Decimal.IsZero o = true)) →
        Gen.Decimal.IsNaN q = true ∧
        Gen.Decimal.Payload_ q = .ok (Spec.Op.quoRem.code ||| cls d <<< 8 ||| cls o <<< 16)) :=
  QuoRem_invalid d o rm hd ho h

/-- the ten unary functions, every `Globals`: a NaN entry of the table for a non-NaN operand carries the
    payload `op | cls d << 8` -/
theorem elem_payload (fn : Spec.Fn) (g : Globals) (d : Gen.Decimal) (w : Spec.Val)
    (hd : Gen.Decimal.IsNaN d = false) (h : Spec.specialCase fn 𝔳[d] = some w) (hw : w.isNaN = true) :
    ∃ r, Props.C15.impl fn g d = .ok r ∧ Gen.Decimal.IsNaN r = true ∧
      Gen.Decimal.Payload_ r = .ok (fn.op.code ||| cls d <<< 8 ||| (0 : UInt64) <<< 16) :=
  NN.elem_payload fn g d w hd h hw

/-- `Log`, `Log2`, `Log10` of a negative non-zero argument (−Inf included), every `Globals` -/
theorem log_invalid_payload (g : Globals) (d : Gen.Decimal) (hd : Gen.Decimal.IsNaN d = false)
    (hs : Gen.Decimal.Signbit d = true) (hz : Gen.Decimal.IsZero d = false) :
    ∃ r, Gen.Log g d = .ok r ∧ Gen.Decimal.IsNaN r = true ∧
      Gen.Decimal.Payload_ r = .ok (Spec.Op.log.code ||| cls d <<< 8 ||| (0 : UInt64) <<< 16) :=
  Log_invalid g d hd hs hz
theorem log2_invalid_payload (g : Globals) (d : Gen.Decimal) (hd : Gen.Decimal.IsNaN d = false)
    (hs : Gen.Decimal.Signbit d = true) (hz : Gen.Decimal.IsZero d = false) :
    ∃ r, Gen.Log2 g d = .ok r ∧ Gen.Decimal.IsNaN r = true ∧
      Gen.Decimal.Payload_ r = .ok (Spec.Op.log2.code ||| cls d <<< 8 ||| (0 : UInt64) <<< 16) :=
  Log2_invalid g d hd hs hz
theorem log10_invalid_payload (g : Globals) (d : Gen.Decimal) (hd : Gen.Decimal.IsNaN d = false)
    (hs : Gen.Decimal.Signbit d = true) (hz : Gen.Decimal.IsZero d = false) :
    ∃ r, Gen.Log10 g d = .ok r ∧ Gen.Decimal.IsNaN r = true ∧
      Gen.Decimal.Payload_ r = .ok (Spec.Op.log10.code ||| cls d <<< 8 ||| (0 : UInt64) <<< 16) :=
  Log10_invalid g d hd hs hz
/-- `Log1p` below −1 (−Inf included) -/
theorem log1p_invalid_payload (g : Globals) (d : Gen.Decimal)
    (h : 𝔳[d] = .inf true ∨ ∃ c e, 𝔳[d] = .fin true c e ∧ 1 < Spec.mag c e) :
    ∃ r, Gen.Log1p g d = .ok r ∧ Gen.Decimal.IsNaN r = true ∧
      Gen.Decimal.Payload_ r = .ok (Spec.Op.log1p.code ||| cls d <<< 8 ||| (0 : UInt64) <<< 16) :=
  Log1p_invalid g d h
/-- `Sqrt` of a negative non-zero argument (−Inf included) -/
theorem sqrt_invalid_payload (g : Globals) (d : Gen.Decimal)
    (hn : Gen.Decimal.IsNaN d = false) (hs : Gen.Decimal.Signbit d = true)
    (hz : Gen.Decimal.IsZero d = false) :
    ∃ r, Gen.Sqrt g d = .ok r ∧ Gen.Decimal.IsNaN r = true ∧
      Gen.Decimal.Payload_ r =
        .ok (Spec.Op.sqrt.code ||| Spec.classCode 𝔳[d] <<< 8 ||| (0 : UInt64) <<< 16) ∧
      𝔳[r] = Spec.invalid1 .sqrt 𝔳[d] := Sqrt_invalid_payload g d hn hs hz
/-- `Pow` of a negative finite base with a non-integer exponent — EVERY mode byte -/
theorem pow_invalid_payload (d o : Gen.Decimal) (rm : UInt8) (xc : Nat) (xe : Int) (yn : Bool) (yc : Nat)
    (ye : Int) (hx : 𝔳[d] = .fin true xc xe) (hx0 : xc ≠ 0) (hy : 𝔳[o] = .fin yn yc ye) (hy0 : yc ≠ 0)
    (hni : PowPf.isIntQ (Spec.mag yc ye) = false) :
    ∃ r, Gen.Decimal.PowWithMode d o rm = .ok r ∧ Gen.Decimal.IsNaN r = true ∧
      Gen.Decimal.Payload_ r = .ok (Spec.Op.pow.code ||| cls d <<< 8 ||| cls o <<< 16) ∧
      𝔳[r] = Spec.invalid2 .pow 𝔳[d] 𝔳[o] := Pow_invalid d o rm xc xe yn yc ye hx hx0 hy hy0 hni

/-- the operand class used above is the specification's class code of the denoted value -/
theorem cls_eq_classCode (d : Gen.Decimal) : Spec.classCode 𝔳[d] = cls d := classCode_interp d

/-! ### the text of `Payload.String` on these payloads (the unmodelled `fmt.Sprintf` branch is not reached) -/

theorem payload_string_binary (op : Spec.Op) (l r : UInt64) (hop : IsBinary op) (hl : InRange l)
    (hr : InRange r) :
    Gen.Payload.String (op.code ||| l <<< 8 ||| r <<< 16) =
      .ok (Go.str (opName op ++ "(" ++ clsName l ++ ", " ++ clsName r ++ ")")) :=
  string_binary op l r hop hl hr
theorem payload_string_unary (op : Spec.Op) (l : UInt64) (hop : IsUnary op) (hl : InRange l) :
    Gen.Payload.String (op.code ||| l <<< 8 ||| (0 : UInt64) <<< 16) =
      .ok (Go.str (opName op ++ "(" ++ clsName l ++ ")")) := string_unary op l hop hl
theorem payload_string_of_invalid2 (op : Spec.Op) (d o : Gen.Decimal) (hop : IsBinary op)
    (hd : Gen.Decimal.IsNaN d = false) (ho : Gen.Decimal.IsNaN o = false) :
    Gen.Payload.String (op.code ||| cls d <<< 8 ||| cls o <<< 16) =
      .ok (Go.str (opName op ++ "(" ++ clsName (cls d) ++ ", " ++ clsName (cls o) ++ ")")) :=
  string_of_invalid2 op d o hop hd ho
theorem payload_string_of_invalid1 (op : Spec.Op) (d : Gen.Decimal) (hop : IsUnary op)
    (hd : Gen.Decimal.IsNaN d = false) :
    Gen.Payload.String (op.code ||| cls d <<< 8 ||| (0 : UInt64) <<< 16) =
      .ok (Go.str (opName op ++ "(" ++ clsName (cls d) ++ ")")) := string_of_invalid1 op d hop hd

/-- end to end: `(-Inf).QuoRem(3)` — the remainder is a NaN whose payload prints "QuoRem(-Infinite, Finite)" -/
example : ∃ q r p, Gen.Decimal.QuoRemWithMode (Gen.inf true) ⟨3, 0x3040000000000000⟩ 0 = .ok (q, r) ∧
    Gen.Decimal.Payload_ r = .ok p ∧
    Gen.Payload.String p = .ok (Go.str "QuoRem(-Infinite, Finite)") := by
  obtain ⟨q, r, h1, -, h3, -⟩ := quoRem_invalid_payload (Gen.inf true) ⟨3, 0x3040000000000000⟩ 0
    (by decide) (by decide) (Or.inl (by decide))
  exact ⟨q, r, _, h1, h3, rfl⟩

/-! ## 3. NaN operands are propagated (operations not covered in C15.lean) -/

/-- `Frexp(NaN) = (NaN, 0)`, bit for bit (also ±Inf and zeros) -/
theorem frexp_nan (d : Gen.Decimal) (h : Gen.Decimal.IsNaN d = true) : Gen.Frexp d = .ok (d, 0) :=
  FrexpPf.Frexp_trivial d (by rw [Sp.isSpecial_of_IsNaN d h]; rfl)
/-- `Ldexp(NaN, e) = NaN`, bit for bit, every `Globals` -/
theorem ldexp_nan (g : Globals) (d : Gen.Decimal) (exp : Int64) (h : Gen.Decimal.IsNaN d = true) :
    Gen.Ldexp g d exp = .ok d :=
  Props.C11b.ldexp_unchanged g d exp (Or.inl (Sp.isSpecial_of_IsNaN d h))
/-- `Abs`, `Neg` keep a NaN a NaN with the same payload (only the sign bit changes) -/
theorem abs_nan (d : Gen.Decimal) (h : Gen.Decimal.IsNaN d = true) :
    Gen.Decimal.IsNaN (Gen.Abs d) = true ∧ (Gen.Abs d).lo = d.lo := ⟨by rw [Abs_isNaN, h], rfl⟩
theorem neg_nan (d : Gen.Decimal) (h : Gen.Decimal.IsNaN d = true) :
    Gen.Decimal.IsNaN (Gen.Decimal.Neg d) = true ∧ (Gen.Decimal.Neg d).lo = d.lo :=
  ⟨by rw [Neg_isNaN, h], rfl⟩
/-- `Canonical(NaN)` is the canonical NaN: sign and payload are dropped, as the documentation says -/
theorem canonical_nan (d : Gen.Decimal) (h : Gen.Decimal.IsNaN d = true) :
    Gen.Decimal.Canonical d = .ok ⟨0, 0x7c00000000000000⟩ ∧
      Gen.Decimal.IsNaN ⟨0, 0x7c00000000000000⟩ = true := ⟨Props.C19.canonical_nan d h, by decide⟩
/-- the package-level rounding functions return a NaN operand bit for bit -/
theorem pkg_round_nan (d : Gen.Decimal) (h : Gen.Decimal.IsNaN d = true) : Gen.Round d = .ok d := by
  rw [Props.C15.round0_eq]; exact Props.C15.round_special d 0 1 (Sp.isSpecial_of_IsNaN d h)
theorem pkg_trunc_nan (d : Gen.Decimal) (h : Gen.Decimal.IsNaN d = true) : Gen.Trunc d = .ok d := by
  rw [Props.C15.trunc0_eq]; exact Props.C15.round_special d 0 2 (Sp.isSpecial_of_IsNaN d h)
theorem pkg_ceil_nan (d : Gen.Decimal) (h : Gen.Decimal.IsNaN d = true) : Gen.Ceil d = .ok d := by
  rw [Props.C15.ceil0_eq]; exact Props.C15.ceil_special d 0 (Sp.isSpecial_of_IsNaN d h)
theorem pkg_floor_nan (d : Gen.Decimal) (h : Gen.Decimal.IsNaN d = true) : Gen.Floor d = .ok d := by
  rw [Props.C15.floor0_eq]; exact Props.C15.floor_special d 0 (Sp.isSpecial_of_IsNaN d h)
/-- `Pow` (valid mode byte): `NaN^y` is a NaN unless `y = ±0`; `x^NaN` is a NaN unless `x = +1`
    (`math.Pow(NaN, 0) = math.Pow(1, NaN) = 1`, `Props.C18.pow_exp_zero`, `pow_base_one`); bit for bit
    propagation of the first NaN operand is `Props.C18.pow_nan_left`, `pow_nan_right` -/
theorem pow_nan (d o : Gen.Decimal) (rm : UInt8) (m : Spec.Mode)
    (hm : Spec.Mode.ofNat? rm.toNat = some m)
    (h : (Gen.Decimal.IsNaN d = true ∧ Gen.Decimal.IsZero o = false) ∨
         (Gen.Decimal.IsNaN o = true ∧ (𝔳[d]).same Spec.posOne = false)) :
    ∃ r, Gen.Decimal.PowWithMode d o rm = .ok r ∧ Gen.Decimal.IsNaN r = true :=
  PowWithMode_nan d o rm m hm h
/-- a NaN Decimal converts to the float NaN -/
theorem float64_nan (d : Gen.Decimal) (h : Gen.Decimal.IsNaN d = true) :
    Gen.Decimal.Float64 d = .ok ⟨0x7ff8000000000001⟩ :=
  (Props.C09.float64_specials d).1 _ _ (Sp.view_nan d h)
theorem float32_nan (d : Gen.Decimal) (h : Gen.Decimal.IsNaN d = true) :
    Gen.Decimal.Float32 d = .ok ⟨0x7fc00000⟩ :=
  (Props.C09.float32_specials d).1 _ _ (Sp.view_nan d h)
/-- a float NaN converts to the Decimal NaN whose payload names the conversion -/
theorem fromFloat32_nan (g : Globals) (f : Go.F32) (h : f.isNaN = true) :
    Gen.FromFloat32 g f = .ok (Gen.nan 2 0 0) ∧
      Gen.Decimal.Payload_ (Gen.nan 2 0 0) = .ok Spec.Op.fromFloat32.code ∧
      Gen.Payload.String Spec.Op.fromFloat32.code = .ok (Go.str "FromFloat32()") := by
  refine ⟨?_, by rw [Enc.Payload_nan]; rfl, rfl⟩
  unfold Gen.FromFloat32
  have : Go.math.IsNaN f.toF64 = true := by
    show f.toF64.isNaN = true
    rw [Go.F32.toF64_isNaN]; exact h
  simp only [this, if_true]; rfl
theorem fromFloat64_nan (g : Globals) (f : Go.F64) (h : f.isNaN = true) :
    Gen.FromFloat64 g f = .ok (Gen.nan 3 0 0) ∧
      Gen.Decimal.Payload_ (Gen.nan 3 0 0) = .ok Spec.Op.fromFloat64.code ∧
      Gen.Payload.String Spec.Op.fromFloat64.code = .ok (Go.str "FromFloat64()") :=
  ⟨FF.fromFloat64_nan g f h, by rw [Enc.Payload_nan]; rfl, rfl⟩

/-! ## 4. The predicates classify every bit pattern consistently

"exactly one of NaN, Inf, zero, finite-nonzero", and the classification is the one of the independent
reading `Spec.interp` of the 128 bits. -/

/-- exactly one of the four classes holds, for every bit pattern (`isSpecial` = NaN ∨ Inf) -/
theorem classify_exactly_one (d : Gen.Decimal) :
    (Gen.Decimal.IsNaN d = true ∧ Gen.Decimal.isInf d = false ∧ Gen.Decimal.isSpecial d = true
        ∧ Gen.Decimal.IsZero d = false) ∨
    (Gen.Decimal.IsNaN d = false ∧ Gen.Decimal.isInf d = true ∧ Gen.Decimal.isSpecial d = true
        ∧ Gen.Decimal.IsZero d = false) ∨
    (Gen.Decimal.IsNaN d = false ∧ Gen.Decimal.isInf d = false ∧ Gen.Decimal.isSpecial d = false
        ∧ Gen.Decimal.IsZero d = true) ∨
    (Gen.Decimal.IsNaN d = false ∧ Gen.Decimal.isInf d = false ∧ Gen.Decimal.isSpecial d = false
        ∧ Gen.Decimal.IsZero d = false) := Enc.classify_partition d

/-- the predicates agree with the specification's reading of the bits -/
theorem predicates_agree (d : Gen.Decimal) :
    Gen.Decimal.IsNaN d = (𝔳[d]).isNaN ∧ Gen.Decimal.isInf d = (𝔳[d]).isInf ∧
    Gen.Decimal.IsZero d = (𝔳[d]).isZero ∧ Gen.Decimal.Signbit d = (𝔳[d]).neg ∧
    Gen.Decimal.isSpecial d = !(𝔳[d]).isFin :=
  ⟨(Enc.interp_isNaN d).symm, (Enc.interp_isInf d).symm, (Enc.interp_isZero d).symm,
    (Enc.interp_neg d).symm, by rw [Enc.interp_isFin]; simp⟩

/-- the exported `IsInf(sign)`: an infinity whose sign agrees with `sign` (`0` = either) -/
theorem isInf_exported (d : Gen.Decimal) (sign : Int64) :
    Gen.Decimal.IsInf d sign = true ↔
      ∃ neg, 𝔳[d] = .inf neg ∧ (sign = 0 ∨ (sign > 0 ∧ neg = false) ∨ (¬ sign > 0 ∧ neg = true)) :=
  Enc.IsInf_spec d sign

/-- the operand class `cls` used in the payloads is 0 exactly for a NaN and otherwise determined by the
    three predicates and the sign bit -/
theorem cls_zero_iff_nan (d : Gen.Decimal) : cls d = 0 ↔ Gen.Decimal.IsNaN d = true := by
  unfold cls
  cases Gen.Decimal.IsNaN d <;> cases Gen.Decimal.isInf d <;> cases Gen.Decimal.IsZero d <;>
    cases Gen.Decimal.Signbit d <;> simp

end Props.C15b
