/-
  Property C14 — database/sql `Compose` / `Decompose` are exact inverses and `Compose` is
  exact-or-error.  For ALL Decimals, all forms, signs, byte strings and int32 exponents
  (incl. MinInt32 / MaxInt32); termination and absence of panics included.

  Statements only; proofs assemble lemmas of `D128/Proofs/ComposeSql*.lean`.  Every theorem is about
  the generated `Gen.Decimal.Compose` (D128/Gen/ComposeBig.lean) and `Gen.Decimal.Decompose`
  (D128/Gen/ComposeText.lean), translations of /repo/compose.go, against `Spec.composeExpect`,
  `Spec.decomposeExpect` (D128/Spec/Conv.lean), `Spec.equal` and `Spec.interp`.

  Size hypotheses: a byte string handed to `Compose` is shorter than 2^60 bytes (`big.Int.BitLen`
  returns an `int`; 8·len must fit) and a buffer handed to `Decompose` shorter than 2^63 bytes (`len`
  is an `int`).  Go slices cannot be longer than 2^48 bytes on the supported platforms, so these
  hypotheses exclude nothing that can exist.

  * `decompose_denotes`       finite d: `(0, sign, bytes, exponent)`, `bytes` = big-endian coefficient
                              without leading zero byte (empty, exponent 0, for a zero coefficient)
  * `decompose_special`       forms 1 / 2 for ±Inf / NaN
  * `decompose_spec`          all d: the result is `Spec.decomposeExpect 𝔳[d]`
  * `decompose_buf_irrelevant` the result does not depend on the buffer supplied
  * `compose_total`           `Compose` never panics and always terminates
  * `compose_exact`           success on form 0 ⇒ the result denotes exactly ±(nat bytes)·10^exp
  * `compose_complete`        form 0: success iff ±(nat bytes)·10^exp is representable; otherwise the range
                              error and `d` unchanged
  * `compose_success_iff`, `compose_error_iff`
  * `compose_maxint32`        exp = MaxInt32, coefficient > Cmax: range error (the unguarded `exp++` wraps; benign)
  * `compose_spec`            all inputs: agreement with `Spec.composeExpect`
  * `compose_inf`, `compose_nan`, `compose_unknown_form`
  * `compose_decompose`, `compose_decompose_inf`, `compose_decompose_nan`   the round trip
-/
import D128.Proofs.ComposeSqlSpec
set_option autoImplicit false

namespace Props.C14
open CS

/-- the value a bit pattern denotes -/
local notation "𝔳[" d "]" => Spec.interp (Gen.Decimal.lo d) (Gen.Decimal.hi d)

/-- `n·10^x` is the magnitude of a member of the format: `c·10^e` with `c ≤ Cmax = 5·2^111 − 1`,
    `−6176 ≤ e ≤ 6111` -/
def Representable (n : Nat) (x : Int) : Prop :=
  ∃ c : Nat, ∃ e : Int, c ≤ Spec.Cmax ∧ -6176 ≤ e ∧ e ≤ 6111 ∧ (n : ℚ) * (10 : ℚ) ^ x = (c : ℚ) * (10 : ℚ) ^ e

theorem representable_iff (n : Nat) (x : Int) :
    Representable n x ↔ SpecRound.Member ((n : ℚ) * (10 : ℚ) ^ x) := Iff.rfl

/-! ## 1. Decompose -/

/-- finite d, any buffer: form 0, the sign, the big-endian coefficient without leading zero bytes
    (empty for zero, with exponent 0) and the exponent; no panic -/
theorem decompose_denotes (d : Gen.Decimal) (buf : Go.Bytes) (hb : buf.size < 2 ^ 63)
    (hs : Gen.Decimal.isSpecial d = false) :
    ∃ s c e bytes e32, 𝔳[d] = .fin s c e ∧
      Gen.Decimal.Decompose d buf = .ok (0, s, bytes, e32) ∧
      (c = 0 → bytes = #[] ∧ e32 = 0) ∧
      (c ≠ 0 → Spec.beNat bytes = c ∧ bytes.toList.getD 0 0 ≠ 0 ∧ 1 ≤ bytes.size ∧ bytes.size ≤ 16 ∧
        e32.toInt = e) := by
  obtain ⟨bytes, e32, hd, hz, hnz⟩ := Decompose_fin d buf hb hs
  exact ⟨_, _, _, bytes, e32, Enc.interp_decompose d hs, hd, hz, hnz⟩

example : ∃ d : Gen.Decimal, Gen.Decimal.isSpecial d = false ∧ 𝔳[d] = .fin true 1 0 :=
  ⟨Gen.one true, by decide, Enc.interp_one true⟩

theorem decompose_special (d : Gen.Decimal) (buf : Go.Bytes) :
    (Gen.Decimal.IsNaN d = true →
      Gen.Decimal.Decompose d buf = .ok (2, Gen.Decimal.Signbit d, #[], 0)) ∧
    (Gen.Decimal.IsNaN d = false → Gen.Decimal.isInf d = true →
      Gen.Decimal.Decompose d buf = .ok (1, Gen.Decimal.Signbit d, #[], 0)) :=
  ⟨Decompose_nan d buf, Decompose_inf d buf⟩

/-- every d, any buffer: exactly what the specification expects -/
theorem decompose_spec (d : Gen.Decimal) (buf : Go.Bytes) (hb : buf.size < 2 ^ 63) :
    ∃ form sign bytes e, Gen.Decimal.Decompose d buf = .ok (form, sign, bytes, e) ∧
      (form.toNat, sign, bytes.toList, e.toInt) = Spec.decomposeExpect 𝔳[d] :=
  Decompose_agrees d buf hb

/-- the buffer supplied (empty, short, or reusable with ≥ 16 bytes of any content) is irrelevant -/
theorem decompose_buf_irrelevant (d : Gen.Decimal) (buf buf' : Go.Bytes) (hb : buf.size < 2 ^ 63)
    (hb' : buf'.size < 2 ^ 63) : Gen.Decimal.Decompose d buf = Gen.Decimal.Decompose d buf' := by
  obtain ⟨f, s, b, e, h, hx⟩ := Decompose_agrees d buf hb
  obtain ⟨f', s', b', e', h', hx'⟩ := Decompose_agrees d buf' hb'
  rw [h, h']
  rw [← hx'] at hx
  simp only [Prod.mk.injEq] at hx
  obtain ⟨h1, h2, h3, h4⟩ := hx
  rw [UInt8.toNat_inj.mp h1, h2, Array.toList_inj.mp h3, Int32.toInt_inj.mp h4]

example : (Array.replicate 40 (7 : UInt8)).size < 2 ^ 63 := by decide

/-! ## 2. Compose -/

/-- `Compose` never panics and always terminates -/
theorem compose_total (d : Gen.Decimal) (form : UInt8) (neg : Bool) (bytes : Go.Bytes) (exp : Int32)
    (hsz : bytes.size < 2 ^ 60) : ∃ r, Gen.Decimal.Compose d form neg bytes exp = .ok r := by
  by_cases h0 : form = 0
  · subst h0
    obtain ⟨r, hr, -⟩ := Compose_form0 d neg bytes exp hsz
    exact ⟨r, hr⟩
  by_cases h1 : form = 1
  · subst h1; exact ⟨_, Compose_form1 d neg bytes exp⟩
  by_cases h2 : form = 2
  · subst h2; exact ⟨_, Compose_form2 d neg bytes exp⟩
  · exact ⟨_, Compose_formOther d form neg bytes exp h0 h1 h2⟩

/-- form 0: ±(nat bytes)·10^exp is composed exactly when it is representable (any coefficient length,
    leading zero bytes, trailing decimal zeros folded, exponents outside −6176..6111 compensated);
    otherwise the range error is returned and `d` is unchanged.  No rounding in either case. -/
theorem compose_complete (d : Gen.Decimal) (neg : Bool) (bytes : Go.Bytes) (exp : Int32)
    (hsz : bytes.size < 2 ^ 60) :
    (Representable (Spec.beNat bytes) exp.toInt →
      ∃ d' c e, Gen.Decimal.Compose d 0 neg bytes exp = .ok (d', Go.Err.nil) ∧
        𝔳[d'] = .fin neg c e ∧ c ≤ Spec.Cmax ∧ -6176 ≤ e ∧ e ≤ 6111 ∧
        (c : ℚ) * (10 : ℚ) ^ e = (Spec.beNat bytes : ℚ) * (10 : ℚ) ^ exp.toInt) ∧
    (¬ Representable (Spec.beNat bytes) exp.toInt →
      Gen.Decimal.Compose d 0 neg bytes exp = .ok (d, Go.Err.composeRangeError)) := by
  obtain ⟨r, hr, hres⟩ := Compose_form0 d neg bytes exp hsz
  unfold Res0 at hres
  by_cases hn : Spec.beNat bytes = 0
  · rw [if_pos hn] at hres
    constructor
    · intro _
      refine ⟨Gen.zero neg, 0, -6176, by rw [hr, hres], Enc.interp_zero neg, Nat.zero_le _, le_refl _,
        by decide, ?_⟩
      rw [hn]; simp
    · intro h
      exact absurd ⟨0, 0, Nat.zero_le _, by decide, by decide, by rw [hn]; simp⟩ h
  · rw [if_neg hn] at hres
    constructor
    · intro hm
      obtain ⟨hnil, c, e, hi, hc, h1, h2, hv⟩ := hres.member hm
      exact ⟨r.1, c, e, by rw [hr]; congr 1; rw [← hnil], hi, hc, h1, h2, hv⟩
    · intro hm
      rw [hr, hres.not_member hm]

/-- success on form 0 ⇒ the result is finite with the sign given and denotes exactly
    (nat bytes)·10^exp -/
theorem compose_exact (d d' : Gen.Decimal) (neg : Bool) (bytes : Go.Bytes) (exp : Int32)
    (hsz : bytes.size < 2 ^ 60)
    (h : Gen.Decimal.Compose d 0 neg bytes exp = .ok (d', Go.Err.nil)) :
    ∃ c e, 𝔳[d'] = .fin neg c e ∧ c ≤ Spec.Cmax ∧ -6176 ≤ e ∧ e ≤ 6111 ∧
      (c : ℚ) * (10 : ℚ) ^ e = (Spec.beNat bytes : ℚ) * (10 : ℚ) ^ exp.toInt := by
  obtain ⟨hyes, hno⟩ := compose_complete d neg bytes exp hsz
  by_cases hm : Representable (Spec.beNat bytes) exp.toInt
  · obtain ⟨d'', c, e, hc, rest⟩ := hyes hm
    rw [hc] at h
    have : d'' = d' := by injection h with h; exact (Prod.mk.inj h).1
    subst this
    exact ⟨c, e, rest⟩
  · rw [hno hm] at h
    injection h with h
    exact absurd (Prod.mk.inj h).2 (by decide)

theorem compose_success_iff (d : Gen.Decimal) (neg : Bool) (bytes : Go.Bytes) (exp : Int32)
    (hsz : bytes.size < 2 ^ 60) :
    (∃ d', Gen.Decimal.Compose d 0 neg bytes exp = .ok (d', Go.Err.nil)) ↔
      Representable (Spec.beNat bytes) exp.toInt := by
  obtain ⟨hyes, hno⟩ := compose_complete d neg bytes exp hsz
  constructor
  · rintro ⟨d', h⟩
    by_contra hm
    rw [hno hm] at h
    injection h with h
    exact absurd (Prod.mk.inj h).2 (by decide)
  · intro hm
    obtain ⟨d', _, _, h, -⟩ := hyes hm
    exact ⟨d', h⟩

theorem compose_error_iff (d : Gen.Decimal) (neg : Bool) (bytes : Go.Bytes) (exp : Int32)
    (hsz : bytes.size < 2 ^ 60) :
    Gen.Decimal.Compose d 0 neg bytes exp = .ok (d, Go.Err.composeRangeError) ↔
      ¬ Representable (Spec.beNat bytes) exp.toInt := by
  obtain ⟨hyes, hno⟩ := compose_complete d neg bytes exp hsz
  constructor
  · intro h hm
    obtain ⟨d', _, _, h', -⟩ := hyes hm
    rw [h] at h'
    injection h' with h'
    exact absurd (Prod.mk.inj h').2 (by decide)
  · exact hno

/-- 2^64 · 10^6100 (nine bytes, one leading zero byte) is representable: the hypothesis of
    `compose_complete` is satisfiable … -/
example : Representable (Spec.beNat #[0, 1, 0, 0, 0, 0, 0, 0, 0, 0]) (6100 : Int32).toInt :=
  ⟨2 ^ 64, 6100, by decide, by decide, by decide, by
    have : Spec.beNat #[0, 1, 0, 0, 0, 0, 0, 0, 0, 0] = 2 ^ 64 := by decide
    rw [this]; rfl⟩

/-- … and so is its negation: 2^114·10^6111 is beyond the largest finite Decimal -/
example : ¬ Representable (2 ^ 114) 6111 := by
  rw [representable_iff]
  intro h
  have := member_ge (le_refl _) h
  rw [CS.Cmax_val] at this
  norm_num at this

/-- `exp = MaxInt32` with a coefficient above `Cmax`: on the ≤ 16-byte path the Go code executes
    `exp++` without a guard and the int32 WRAPS to MinInt32 (compose.go, `for sig128[1] > 0x0002_7fff…`);
    the loop then ends within five passes and `exp < minUnbiasedExponent-maxDigits` reports the range
    error — which is the right answer, so the wrap is benign (invariant `CS.T1`). -/
theorem compose_maxint32 (d : Gen.Decimal) (neg : Bool) (bytes : Go.Bytes)
    (hsz : bytes.size < 2 ^ 60) (hn : Spec.Cmax < Spec.beNat bytes) :
    Gen.Decimal.Compose d 0 neg bytes 2147483647 = .ok (d, Go.Err.composeRangeError) := by
  rw [compose_error_iff d neg bytes _ hsz, representable_iff]
  intro h
  have e : (2147483647 : Int32).toInt = 2147483647 := by decide
  rw [e] at h
  have := member_ge (by rw [CS.Emax_val]; decide) h
  omega

example : Spec.Cmax < Spec.beNat #[255, 255, 255, 255, 255, 255, 255, 255, 255, 255, 255, 255, 255, 255, 255, 255] := by
  decide

/-- all forms, signs, byte strings and exponents: `Compose` returns what `Spec.composeExpect` demands -/
theorem compose_spec (d : Gen.Decimal) (form : UInt8) (neg : Bool) (bytes : Go.Bytes) (exp : Int32)
    (hsz : bytes.size < 2 ^ 60) :
    match Spec.composeExpect form.toNat neg bytes exp.toInt with
    | .ok v => ∃ d', Gen.Decimal.Compose d form neg bytes exp = .ok (d', Go.Err.nil) ∧
        (𝔳[d']).same v = true
    | .error cls =>
        (cls = "composeRange" ∧
          Gen.Decimal.Compose d form neg bytes exp = .ok (d, Go.Err.composeRangeError)) ∨
        (cls = "composeForm" ∧
          Gen.Decimal.Compose d form neg bytes exp = .ok (d, Go.Err.composeFormError)) :=
  Compose_agrees d form neg bytes exp hsz

theorem compose_inf (d : Gen.Decimal) (neg : Bool) (bytes : Go.Bytes) (exp : Int32) :
    ∃ d', Gen.Decimal.Compose d 1 neg bytes exp = .ok (d', Go.Err.nil) ∧ 𝔳[d'] = .inf neg :=
  ⟨_, Compose_form1 d neg bytes exp, Enc.interp_inf neg⟩

/-- form 2: a quiet NaN carrying the Compose payload (operation code 1, no operand classes) -/
theorem compose_nan (d : Gen.Decimal) (neg : Bool) (bytes : Go.Bytes) (exp : Int32) :
    Gen.Decimal.Compose d 2 neg bytes exp = .ok (Gen.nan 1 0 0, Go.Err.nil) ∧
      𝔳[Gen.nan 1 0 0] = .nan false 1 :=
  ⟨Compose_form2 d neg bytes exp, by rw [Enc.interp_nan]; rfl⟩

theorem compose_unknown_form (d : Gen.Decimal) (form : UInt8) (neg : Bool) (bytes : Go.Bytes)
    (exp : Int32) (h : 2 < form.toNat) :
    Gen.Decimal.Compose d form neg bytes exp = .ok (d, Go.Err.composeFormError) :=
  Compose_formOther d form neg bytes exp (by rintro rfl; exact absurd h (by decide))
    (by rintro rfl; exact absurd h (by decide)) (by rintro rfl; exact absurd h (by decide))

/-! ## 3. the round trip -/

/-- every finite d, any buffer, any receiver: `Compose` of the parts `Decompose` returns succeeds and
    gives a finite Decimal `Equal` to d with the same sign -/
theorem compose_decompose (d d0 : Gen.Decimal) (buf : Go.Bytes) (hb : buf.size < 2 ^ 63)
    (hs : Gen.Decimal.isSpecial d = false) :
    ∃ sign bytes e d', Gen.Decimal.Decompose d buf = .ok (0, sign, bytes, e) ∧
      Gen.Decimal.Compose d0 0 sign bytes e = .ok (d', Go.Err.nil) ∧
      Spec.equal 𝔳[d'] 𝔳[d] = true ∧ Gen.Decimal.Signbit d' = Gen.Decimal.Signbit d ∧
      Gen.Decimal.isSpecial d' = false :=
  roundtrip_fin d d0 buf hb hs

theorem compose_decompose_inf (d d0 : Gen.Decimal) (buf : Go.Bytes)
    (hn : Gen.Decimal.IsNaN d = false) (hi : Gen.Decimal.isInf d = true) :
    ∃ sign bytes e d', Gen.Decimal.Decompose d buf = .ok (1, sign, bytes, e) ∧
      Gen.Decimal.Compose d0 1 sign bytes e = .ok (d', Go.Err.nil) ∧
      Spec.equal 𝔳[d'] 𝔳[d] = true ∧ 𝔳[d'] = .inf (Gen.Decimal.Signbit d) :=
  roundtrip_inf d d0 buf hn hi

theorem compose_decompose_nan (d d0 : Gen.Decimal) (buf : Go.Bytes)
    (hn : Gen.Decimal.IsNaN d = true) :
    ∃ sign bytes e d', Gen.Decimal.Decompose d buf = .ok (2, sign, bytes, e) ∧
      Gen.Decimal.Compose d0 2 sign bytes e = .ok (d', Go.Err.nil) ∧ 𝔳[d'] = .nan false 1 :=
  roundtrip_nan d d0 buf hn

example : Gen.Decimal.isSpecial (Gen.one false) = false := by decide
example : Gen.Decimal.IsNaN (Gen.inf true) = false ∧ Gen.Decimal.isInf (Gen.inf true) = true := by decide
example : Gen.Decimal.IsNaN (Gen.nan 1 0 0) = true := by decide

end Props.C14
