/-
  Property C16, exponential family: **`Exp`, `Exp2`, `Exp10`, `Expm1` are accurate to one unit in the last
  place** — theorems about the generated code `Gen.Exp`, `Gen.Exp2`, `Gen.Exp10`, `Gen.Expm1`
  (translation of /repo/exp.go, decomposed.go) for EVERY bit pattern `d`, under a nearest default mode.

  The statements use `EnclPf.Violation f x r ne` (D128/Proofs/EnclosureExact.lean), the complete meaning of a
  `.bad` verdict of the C16 oracle about the REAL number `f(x)` (Mathlib's `Real.exp`, `rpow`):
    * special operand (NaN, ±Inf, ±0): `r` is not the value the table `Spec.specialCase` prescribes;
    * default mode, `f(x)` exactly representable by the rule of the property (`Spec.exactCase`: `Exp10` of an integer,
      `Exp2` of an integer in [-48, 113]): `r` is not that value;
    * |x| ≥ 10^7: `r` is not `+Inf` / `+0` / `−1`;
    * otherwise `GeneralViolation (f x) r`: NaN; wrong sign; a finite non-zero `r` with
      `|r − f(x)| > 10^(ulpExp |f(x)|)` (more than one unit in the last place of the format at the true result);
      finite although `|f(x)| ≥ 10^(Emax+41)`; non-zero although `|f(x)| < 10^(Emin−40)`; zero although
      `|f(x)| > ulp`; infinite although `|f(x)| < 10^(Emax+30)` or `|f(x)| + ulp` is below the largest finite Decimal.

  1. `exp_accurate`, `exp2_accurate`, `exp10_accurate` : `g.DefaultRoundingMode = 0` (ToNearestEven):
        `∃ r, Gen.f g d = .ok r ∧ ¬ Violation f 𝔳[d] 𝔳[r] true`     for every `d`, no side condition.
     `…_nearest` : the same for every nearest mode byte (`0` or `1`; the exactness clause is asked only under
        nearest-even, as in the property).
  2. `expm1_accurate` : the same for `Expm1` under the two hypotheses that exclude exactly the recorded defects
        (known_findings.json): `d` is not a negative zero (`expm1-negative-zero`: `Expm1(−0) = +0`), and a negative
        argument has magnitude at least `2·10^-21` (`expm1-small-negative-cancellation`: `1/(1+s) − 1` cancels for
        `|x| < 1e-22`; between `3·10^-22` and `2·10^-21` the claim holds on every tested argument but is not proved,
        see D128/Proofs/ExpAccM1Main.lean).
  3. readable corollaries `exp_within_ulp`, … : a finite non-zero result is within one unit in the last place.
  4. history: FINDING made while proving (fixed in /repo 9da9764 before this file was finished, so no longer a
     theorem about the current code): `Exp10(−n)` for the integers `n = 6170 … 6176` returned `+0` although
     `10^-n` is representable — the final range test `res.exp > maxUnbiasedExponent+58` was applied to negative
     arguments too.

  Proofs: D128/Proofs/ExpAcc*.lean (working-format contracts → value against `Real.exp` → final rounding against
  a real target).
-/
import D128.Proofs.ExpAccProp
import D128.Proofs.ExpAccExp10Main
import D128.Proofs.ExpAccExp2Main
import D128.Proofs.ExpAccM1Main
import D128.Proofs.SpecialsUnary
set_option autoImplicit false
set_option maxRecDepth 4096
set_option exponentiation.threshold 512

namespace Props.C16Exp
open Gen Spec SpecRound EnclPf ExpAcc D192

/-- the value a bit pattern denotes -/
local notation "𝔳[" d "]" => Spec.interp (Gen.Decimal.lo d) (Gen.Decimal.hi d)

/-! ## helpers -/

theorem same_symm {a b : Val} (h : a.same b = true) : b.same a = true := by
  match a, b, h with
  | .nan _ _, .nan _ _, h =>
    simp only [Val.same, Bool.and_eq_true, beq_iff_eq] at h ⊢; exact ⟨h.1.symm, h.2.symm⟩
  | .inf _, .inf _, h => simp only [Val.same, beq_iff_eq] at h ⊢; exact h.symm
  | .fin _ _ _, .fin _ _ _, h =>
    simp only [Val.same, Bool.and_eq_true, beq_iff_eq] at h ⊢; exact ⟨h.1.symm, h.2.symm⟩

theorem same_trans {a b c : Val} (h1 : a.same b = true) (h2 : b.same c = true) : a.same c = true := by
  match a, b, c, h1, h2 with
  | .nan _ _, .nan _ _, .nan _ _, h1, h2 =>
    simp only [Val.same, Bool.and_eq_true, beq_iff_eq] at h1 h2 ⊢
    exact ⟨h1.1.trans h2.1, h1.2.trans h2.2⟩
  | .inf _, .inf _, .inf _, h1, h2 =>
    simp only [Val.same, beq_iff_eq] at h1 h2 ⊢; exact h1.trans h2
  | .fin _ _ _, .fin _ _ _, .fin _ _ _, h1, h2 =>
    simp only [Val.same, Bool.and_eq_true, beq_iff_eq] at h1 h2 ⊢
    exact ⟨h1.1.trans h2.1, h1.2.trans h2.2⟩

/-- a member of the format is what every mode selects for it -/
theorem member_same (m : Mode) (c0 : Nat) (e0 : Int) (hc0 : 0 < c0) (hc : c0 ≤ Spec.Cmax)
    (he0 : Spec.Emin ≤ e0) (he1 : e0 ≤ Spec.Emax) :
    (Spec.flushOrRound m false ((c0 : ℚ) * (10 : ℚ) ^ e0)).same (.fin false c0 e0) = true := by
  have hq : (10 : ℚ) ^ (Spec.Emin - 1) ≤ (c0 : ℚ) * (10 : ℚ) ^ e0 := by
    have h1 : (10 : ℚ) ^ (Spec.Emin - 1) ≤ (10 : ℚ) ^ e0 := zpow_le_zpow_right₀ (by norm_num) (by omega)
    have h2 : (1 : ℚ) ≤ (c0 : ℚ) := by exact_mod_cast hc0
    have hp : (0 : ℚ) < (10 : ℚ) ^ e0 := zpow_pos (by norm_num) _
    nlinarith
  rw [flushOrRound_eq_roundTo m false hq]
  obtain ⟨c', e', hr, hv, -, -, -⟩ := roundTo_exact m false hc0 hc he0 he1
  rw [hr]
  simpa [Val.same, Spec.mag, pow10_eq_zpow] using hv

/-- the operand of a general-path call: finite, non-zero -/
theorem general_operand (f : Fn) (d : Decimal) (h : specialCase f 𝔳[d] = none) :
    ∃ n c e, 𝔳[d] = .fin n c e ∧ c ≠ 0 ∧ Decimal.isSpecial d = false ∧ Decimal.IsZero d = false ∧
      n = Decimal.Signbit d ∧ c = d.decompose.1.toNat ∧ e = d.decompose.2.toInt - 6176 := by
  match hv : 𝔳[d] with
  | .nan n p => rw [hv] at h; simp [specialCase] at h
  | .inf n => rw [hv] at h; cases f <;> simp [specialCase] at h
  | .fin n c e =>
    rw [hv] at h
    obtain ⟨hc0, -⟩ := specialCase_none h
    obtain ⟨hs, h1, h2, h3⟩ := fin_of_interp d n c e hv
    exact ⟨n, c, e, rfl, hc0, hs, isZero_of_c d (by rw [← h2]; exact hc0), h1, h2, h3⟩

/-- a special operand: the table value is returned, hence no violation -/
theorem special_no_violation (f : Fn) (x r w : Val) (ne : Bool) (hs : specialCase f x = some w)
    (hsame : r.same w = true) : ¬ Violation f x r ne := by
  rintro (⟨want, hw, hne⟩ | ⟨n, c, e, -, hnone, -⟩)
  · rw [hs] at hw
    obtain rfl := Option.some.inj hw
    rw [hsame] at hne; cases hne
  · rw [hs] at hnone; cases hnone

theorem nearestEven_of_zero (g : Globals) (hg : g.DefaultRoundingMode = 0) :
    Spec.Mode.ofNat? g.DefaultRoundingMode.toNat = some .nearestEven ∧ isNearest .nearestEven = true := by
  rw [hg]; exact ⟨rfl, rfl⟩

theorem mag_eq_val (d : Decimal) (h1 : Decimal.isSpecial d = false) :
    Spec.mag d.decompose.1.toNat (d.decompose.2.toInt - 6176) = val (argOf d) := by
  rw [val_argOf d h1]; unfold Spec.mag; rw [pow10_eq_zpow]

theorem X_arg (d : Decimal) (h1 : Decimal.isSpecial d = false) :
    X (Decimal.Signbit d) d.decompose.1.toNat (d.decompose.2.toInt - 6176)
      = if Decimal.Signbit d then -absArg d else absArg d := X_of_arg d h1

/-! ## 1. Exp -/

/-- **Exp, every bit pattern, every nearest default mode.** -/
theorem exp_accurate_nearest (g : Globals) (m : Spec.Mode)
    (hm : Spec.Mode.ofNat? g.DefaultRoundingMode.toNat = some m) (hn : isNearest m = true)
    (d : Gen.Decimal) (ne : Bool) :
    ∃ r, Gen.Exp g d = .ok r ∧ ¬ Violation .exp 𝔳[d] 𝔳[r] ne := by
  cases hs : specialCase .exp 𝔳[d] with
  | some w =>
    obtain ⟨r, hr, hsame⟩ := Sp.Exp_special g d w hs
    exact ⟨r, hr, special_no_violation _ _ _ _ ne hs hsame⟩
  | none =>
    obtain ⟨n, c, e, hv, hc0, h1, h2, hn', hc', he'⟩ := general_operand .exp d hs
    obtain ⟨r, hr, hneg, hgv⟩ := Exp_ok g m hm hn d h1 h2
    refine ⟨r, hr, ?_⟩
    rw [hv] at hs ⊢
    apply no_violation_fin .exp (Or.inl rfl) n c e _ ne hs hneg
    · rw [hn', hc', he']; exact hgv
    · intro want _ hex
      simp [exactCase] at hex

/-- **Exp is accurate to one ulp** (default mode ToNearestEven): for every bit pattern `d` the call returns
without panic and its result is not a `Violation` of property C16. -/
theorem exp_accurate (g : Globals) (d : Gen.Decimal) (hg : g.DefaultRoundingMode = 0) :
    ∃ r, Gen.Exp g d = .ok r ∧ ¬ Violation .exp 𝔳[d] 𝔳[r] true :=
  exp_accurate_nearest g .nearestEven (nearestEven_of_zero g hg).1 rfl d true

/-! ## 2. Exp10 -/

/-- the real function of `Exp10` in the form used by the proofs -/
theorem exp10_target (d : Decimal) (h1 : Decimal.isSpecial d = false) :
    realFn .exp10 (X (Decimal.Signbit d) d.decompose.1.toNat (d.decompose.2.toInt - 6176))
      = Real.exp ((if Decimal.Signbit d then -absArg d else absArg d) * Real.log 10) := by
  rw [X_arg d h1]
  show (10 : ℝ) ^ _ = _
  rw [Real.rpow_def_of_pos (by norm_num), mul_comm]

/-- the exact case of `Exp10`: an integer argument -/
theorem exp10_exact_arg (n : Bool) (c : Nat) (e : Int) (want : Val) (h : exactCase .exp10 n c e = some want) :
    ∃ k : Int, (Val.fin n c e).toRat = (k : ℚ) ∧ want = flushOrRoundS .nearestEven false 1 k := by
  unfold exactCase at h
  simp only at h
  split at h
  · exact absurd h (by simp)
  rename_i hg
  rw [← EnclPf.toRat_fin n c e] at h
  set x : ℚ := (Val.fin n c e).toRat with hx
  split at h
  · rename_i hcnd
    simp only [Bool.and_eq_true, beq_iff_eq, decide_eq_true_eq] at hcnd
    obtain rfl := Option.some.inj h
    exact ⟨x.num, (Rat.coe_int_num_of_den_eq_one hcnd.1).symm, rfl⟩
  · exact absurd h (by simp)

/-- **Exp10, every bit pattern, every nearest default mode** (exactness under nearest-even). -/
theorem exp10_accurate_nearest (g : Globals) (m : Spec.Mode)
    (hm : Spec.Mode.ofNat? g.DefaultRoundingMode.toNat = some m) (hn : isNearest m = true)
    (d : Gen.Decimal) (ne : Bool) (hne : ne = true → m = .nearestEven) :
    ∃ r, Gen.Exp10 g d = .ok r ∧ ¬ Violation .exp10 𝔳[d] 𝔳[r] ne := by
  cases hs : specialCase .exp10 𝔳[d] with
  | some w =>
    obtain ⟨r, hr, hsame⟩ := Sp.Exp10_special g d w hs
    exact ⟨r, hr, special_no_violation _ _ _ _ ne hs hsame⟩
  | none =>
    obtain ⟨n, c, e, hv, hc0, h1, h2, hn', hc', he'⟩ := general_operand .exp10 d hs
    obtain ⟨r, hr, hneg, hgv, hex⟩ := Exp10_ok g m hm hn d h1 h2
    refine ⟨r, hr, ?_⟩
    rw [hv] at hs ⊢
    apply no_violation_fin .exp10 (Or.inr (Or.inr rfl)) n c e _ ne hs hneg
    · rw [hn', hc', he', exp10_target d h1]; exact hgv
    · intro want hne' hexact
      obtain ⟨k, hk, hw⟩ := exp10_exact_arg n c e want hexact
      rw [EnclPf.toRat_fin, hn', hc', he', mag_eq_val d h1] at hk
      have := hex k hk
      rw [hne hne'] at this
      rw [hw]
      exact same_symm this

/-- **Exp10 is accurate to one ulp and exact on integers** (default mode ToNearestEven). -/
theorem exp10_accurate (g : Globals) (d : Gen.Decimal) (hg : g.DefaultRoundingMode = 0) :
    ∃ r, Gen.Exp10 g d = .ok r ∧ ¬ Violation .exp10 𝔳[d] 𝔳[r] true :=
  exp10_accurate_nearest g .nearestEven (nearestEven_of_zero g hg).1 rfl d true (fun _ => rfl)

/-! ## 3. Exp2 -/

theorem exp2_target (d : Decimal) (h1 : Decimal.isSpecial d = false) :
    realFn .exp2 (X (Decimal.Signbit d) d.decompose.1.toNat (d.decompose.2.toInt - 6176))
      = Real.exp ((if Decimal.Signbit d then -absArg d else absArg d) * Real.log 2) := by
  rw [X_arg d h1]
  show (2 : ℝ) ^ _ = _
  rw [Real.rpow_def_of_pos (by norm_num), mul_comm]

/-- the exact cases of `Exp2`: an integer argument `k ∈ [-48, 113]`, `want` denotes `2^k` -/
theorem exp2_exact_arg (n : Bool) (c : Nat) (e : Int) (want : Val) (h : exactCase .exp2 n c e = some want) :
    ∃ k : Int, (Val.fin n c e).toRat = (k : ℚ) ∧ -48 ≤ k ∧ k ≤ 113 ∧
      ∀ m : Mode, (Spec.flushOrRound m false ((2 : ℚ) ^ k)).same want = true := by
  unfold exactCase at h
  simp only at h
  split at h
  · exact absurd h (by simp)
  rename_i hg
  rw [← EnclPf.toRat_fin n c e] at h
  set x : ℚ := (Val.fin n c e).toRat with hx
  split at h
  · rename_i hcnd
    simp only [Bool.and_eq_true, beq_iff_eq, decide_eq_true_eq] at hcnd
    obtain rfl := Option.some.inj h
    obtain ⟨⟨hden, h0⟩, h113⟩ := hcnd
    refine ⟨x.num, (Rat.coe_int_num_of_den_eq_one hden).symm, by omega, h113, fun m => ?_⟩
    have hkk : (x.num.toNat : Int) = x.num := Int.toNat_of_nonneg h0
    have e1 : (2 : ℚ) ^ x.num = ((2 ^ x.num.toNat : Nat) : ℚ) * (10 : ℚ) ^ (0 : Int) := by
      conv_lhs => rw [← hkk]
      rw [zpow_natCast]; push_cast; ring
    rw [e1]
    refine member_same m _ 0 (by positivity) ?_ (by unfold Spec.Emin; norm_num) (by unfold Spec.Emax; norm_num)
    have : x.num.toNat ≤ 113 := by omega
    calc 2 ^ x.num.toNat ≤ 2 ^ 113 := Nat.pow_le_pow_right (by norm_num) this
      _ ≤ Spec.Cmax := by unfold Spec.Cmax; norm_num
  · split at h
    · rename_i hcnd
      simp only [Bool.and_eq_true, beq_iff_eq, decide_eq_true_eq] at hcnd
      obtain rfl := Option.some.inj h
      obtain ⟨⟨hden, h0⟩, h48⟩ := hcnd
      refine ⟨x.num, (Rat.coe_int_num_of_den_eq_one hden).symm, h48, by omega, fun m => ?_⟩
      obtain ⟨j, hj⟩ : ∃ j : ℕ, x.num = -(j : Int) := ⟨(-x.num).toNat, by omega⟩
      have hj48 : j ≤ 48 := by omega
      have hnk : (-x.num).toNat = j := by omega
      have e1 : (2 : ℚ) ^ x.num = ((5 ^ j : Nat) : ℚ) * (10 : ℚ) ^ x.num := by
        rw [hj, zpow_neg, zpow_neg, zpow_natCast, zpow_natCast]
        push_cast
        have h25 : (10 : ℚ) ^ j = (2 : ℚ) ^ j * (5 : ℚ) ^ j := by rw [← mul_pow]; norm_num
        rw [h25]
        field_simp
      rw [e1, hnk]
      refine member_same m _ x.num (by positivity) ?_ (by unfold Spec.Emin; omega) (by unfold Spec.Emax; omega)
      calc 5 ^ j ≤ 5 ^ 48 := Nat.pow_le_pow_right (by norm_num) hj48
        _ ≤ Spec.Cmax := by unfold Spec.Cmax; norm_num
    · exact absurd h (by simp)

/-- **Exp2, every bit pattern, every nearest default mode.** -/
theorem exp2_accurate_nearest (g : Globals) (m : Spec.Mode)
    (hm : Spec.Mode.ofNat? g.DefaultRoundingMode.toNat = some m) (hn : isNearest m = true)
    (d : Gen.Decimal) (ne : Bool) :
    ∃ r, Gen.Exp2 g d = .ok r ∧ ¬ Violation .exp2 𝔳[d] 𝔳[r] ne := by
  cases hs : specialCase .exp2 𝔳[d] with
  | some w =>
    obtain ⟨r, hr, hsame⟩ := Sp.Exp2_special g d w hs
    exact ⟨r, hr, special_no_violation _ _ _ _ ne hs hsame⟩
  | none =>
    obtain ⟨n, c, e, hv, hc0, h1, h2, hn', hc', he'⟩ := general_operand .exp2 d hs
    obtain ⟨r, hr, hneg, hgv, hex⟩ := Exp2_ok g m hm hn d h1 h2
    refine ⟨r, hr, ?_⟩
    rw [hv] at hs ⊢
    apply no_violation_fin .exp2 (Or.inr (Or.inl rfl)) n c e _ ne hs hneg
    · rw [hn', hc', he', exp2_target d h1]; exact hgv
    · intro want _ hexact
      obtain ⟨k, hk, hk0, hk1, hw⟩ := exp2_exact_arg n c e want hexact
      rw [EnclPf.toRat_fin, hn', hc', he', mag_eq_val d h1] at hk
      have h1' := hex k hk (by omega) (by omega)
      exact same_trans (same_symm h1') (hw m)

/-- **Exp2 is accurate to one ulp and exact on the integers of the property** (default mode ToNearestEven). -/
theorem exp2_accurate (g : Globals) (d : Gen.Decimal) (hg : g.DefaultRoundingMode = 0) :
    ∃ r, Gen.Exp2 g d = .ok r ∧ ¬ Violation .exp2 𝔳[d] 𝔳[r] true :=
  exp2_accurate_nearest g .nearestEven (nearestEven_of_zero g hg).1 rfl d true

/-! ## 4. Expm1 -/

/-- **Expm1, nearest default mode**, for every bit pattern except the two recorded defect regions: negative zero
(`Expm1(−0) = +0`, finding `expm1-negative-zero`) and negative arguments of magnitude below `2·10^-21` (finding
`expm1-small-negative-cancellation`, which really starts near `3·10^-22`). -/
theorem expm1_accurate_nearest (g : Globals) (m : Spec.Mode)
    (hm : Spec.Mode.ofNat? g.DefaultRoundingMode.toNat = some m) (hn : isNearest m = true)
    (d : Gen.Decimal) (ne : Bool)
    (hz : ¬ (Gen.Decimal.IsZero d = true ∧ Gen.Decimal.Signbit d = true))
    (hsmall : ∀ c e, 𝔳[d] = .fin true c e → c ≠ 0 → 2 / 10 ^ 21 ≤ mag c e) :
    ∃ r, Gen.Expm1 g d = .ok r ∧ ¬ Violation .expm1 𝔳[d] 𝔳[r] ne := by
  cases hs : specialCase .expm1 𝔳[d] with
  | some w =>
    obtain ⟨r, hr, hsame⟩ := Sp.Expm1_special g d w (fun z => by
      cases hsb : Gen.Decimal.Signbit d
      · rfl
      · exact absurd ⟨z, hsb⟩ hz) hs
    exact ⟨r, hr, special_no_violation _ _ _ _ ne hs hsame⟩
  | none =>
    obtain ⟨n, c, e, hv, hc0, h1, h2, hn', hc', he'⟩ := general_operand .expm1 d hs
    have hsm : Decimal.Signbit d = true → 2 / 10 ^ 21 ≤ val (argOf d) := by
      intro hsb
      have := hsmall c e (by rw [hv, hn', hsb]) hc0
      rw [hc', he', mag_eq_val d h1] at this; exact this
    obtain ⟨r, hr, hgv, hhuge⟩ := Expm1_ok g m hm hn d h1 h2 hsm
    refine ⟨r, hr, ?_⟩
    rw [hv] at hs ⊢
    have hF : realFn .expm1 (X n c e)
        = Real.exp (if Decimal.Signbit d then -absArg d else absArg d) - 1 := by
      rw [hn', hc', he', X_arg d h1]; rfl
    rintro (⟨want, hw, -⟩ | ⟨n', c', e', hx, -, hrest⟩)
    · rw [hs] at hw; cases hw
    · injection hx with e1 e2 e3
      subst e1 e2 e3
      -- a huge argument: |x| ≥ 10^7 ≥ 10^6
      have hbig : hugeArg .expm1 c e = true → (10 : ℝ) ^ (6 : ℕ) ≤ absArg d := by
        intro hh
        unfold hugeArg at hh
        simp only [Bool.and_eq_true, decide_eq_true_eq] at hh
        have hA : (10 : ℝ) ^ (7 : ℤ) ≤ |X n c e| :=
          le_trans (zpow_le_zpow_right₀ (by norm_num) (by omega)) (abs_X_ge n hc0 e)
        rw [hn', hc', he', X_arg d h1] at hA
        have hpos := absArg_pos d h1 h2
        have habs : |if Decimal.Signbit d then -absArg d else absArg d| = absArg d := by
          cases Decimal.Signbit d
          · simp [abs_of_pos hpos]
          · simp [abs_of_pos hpos]
        rw [habs] at hA
        have : (10 : ℝ) ^ (6 : ℕ) ≤ (10 : ℝ) ^ (7 : ℤ) := by norm_num
        linarith
      rcases hrest with ⟨want, -, hex, -, -⟩ | ⟨hh, hnf, -, hsame⟩ | ⟨-, -, hne, -⟩ | ⟨hh, hnt, -, -, -, hsame⟩ | hg
      · simp [exactCase] at hex
      · rw [hhuge (hbig hh), ← hn', hnf] at hsame
        simp [outM1, Enc.interp_inf, Val.same] at hsame
      · exact hne rfl
      · rw [hhuge (hbig hh), ← hn', hnt] at hsame
        simp [outM1, Enc.interp_one, Val.same, Spec.mag] at hsame
      · rw [hF] at hg; exact hgv hg

/-- **Expm1 is accurate to one ulp** (default mode ToNearestEven) outside the two recorded defect regions. -/
theorem expm1_accurate (g : Globals) (d : Gen.Decimal) (hg : g.DefaultRoundingMode = 0)
    (hz : ¬ (Gen.Decimal.IsZero d = true ∧ Gen.Decimal.Signbit d = true))
    (hsmall : ∀ c e, 𝔳[d] = .fin true c e → c ≠ 0 → 2 / 10 ^ 21 ≤ mag c e) :
    ∃ r, Gen.Expm1 g d = .ok r ∧ ¬ Violation .expm1 𝔳[d] 𝔳[r] true :=
  expm1_accurate_nearest g .nearestEven (nearestEven_of_zero g hg).1 rfl d true hz hsmall

/-! ## 5. readable corollary: a finite non-zero result is within one unit in the last place -/

/-- what "not a violation" means for a finite non-zero result on the general path -/
theorem within_ulp_of_no_violation (f : Fn) (n : Bool) (c : Nat) (e : Int) (rn : Bool) (rc : Nat) (re : Int)
    (ne : Bool) (hspec : specialCase f (.fin n c e) = none)
    (h : ¬ Violation f (.fin n c e) (.fin rn (rc + 1) re) ne) :
    |X rn (rc + 1) re - realFn f (X n c e)| ≤ (10 : ℝ) ^ (ulpExp |realFn f (X n c e)|) ∧
      0 ≤ X rn (rc + 1) re * realFn f (X n c e) := by
  have hgv : ¬ GeneralViolation (realFn f (X n c e)) (.fin rn (rc + 1) re) := by
    intro hg
    exact h (Or.inr ⟨n, c, e, rfl, hspec, Or.inr (Or.inr (Or.inr (Or.inr hg)))⟩)
  constructor
  · by_contra hc
    exact hgv (Or.inr (Or.inl (not_le.1 hc)))
  · by_contra hc
    exact hgv (Or.inl (not_le.1 hc))

/-- the hypotheses of the four theorems are satisfiable: `Exp`, `Exp2`, `Exp10` of `1.5`, `Expm1` of `-1.5` -/
example (g : Globals) (hg : g.DefaultRoundingMode = 0) :
    (∃ r, Gen.Exp g (Gen.compose false ⟨15, 0⟩ 6175) = .ok r ∧ ¬ Violation .exp 𝔳[Gen.compose false ⟨15, 0⟩ 6175] 𝔳[r] true) ∧
    (∃ r, Gen.Exp2 g (Gen.compose false ⟨15, 0⟩ 6175) = .ok r ∧ ¬ Violation .exp2 𝔳[Gen.compose false ⟨15, 0⟩ 6175] 𝔳[r] true) ∧
    (∃ r, Gen.Exp10 g (Gen.compose false ⟨15, 0⟩ 6175) = .ok r ∧ ¬ Violation .exp10 𝔳[Gen.compose false ⟨15, 0⟩ 6175] 𝔳[r] true) :=
  ⟨exp_accurate g _ hg, exp2_accurate g _ hg, exp10_accurate g _ hg⟩

/-- the hypotheses of `expm1_accurate` are satisfiable: `Expm1(-1.5)` -/
example (g : Globals) (hg : g.DefaultRoundingMode = 0) :
    ∃ r, Gen.Expm1 g (Gen.compose true ⟨15, 0⟩ 6175) = .ok r ∧
      ¬ Violation .expm1 𝔳[Gen.compose true ⟨15, 0⟩ 6175] 𝔳[r] true := by
  have hv : 𝔳[Gen.compose true ⟨15, 0⟩ 6175] = .fin true 15 (-1) := by
    rw [Sp.interp_compose true ⟨15, 0⟩ 6175 (by unfold Spec.Cmax; simp [U128.toNat]) (by decide) (by decide)]
    simp [U128.toNat]
  refine expm1_accurate g _ hg (fun h => ?_) (fun c e h hc => ?_)
  · have := h.1
    rw [Sp.IsZero_eq_sig, Enc.decompose_compose true ⟨15, 0⟩ 6175 (by unfold Spec.Cmax; simp [U128.toNat])
      (by decide) (by decide)] at this
    simp [U128.toNat] at this
  · rw [hv] at h
    injection h with _ h2 h3
    rw [← h2, ← h3]
    unfold Spec.mag Spec.pow10
    norm_num

end Props.C16Exp
