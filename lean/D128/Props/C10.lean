/-
  Property C10 (part: the fixed-width integer conversions), for ALL 2^128 bit patterns / all
  machine integers.

  Statements only; proofs assemble lemmas of `D128/Proofs/IntConv*.lean`.  Every theorem is about
  the generated `Gen.Decimal.Int64_`, `Int32_`, `Uint64`, `Uint32` (two `while` loops each:
  digit drop, then scale-up with overflow detection) and `Gen.FromInt64`, `FromInt32`,
  `FromUint64`, `FromUint32` (translation of /repo/convert.go), against `Spec.sat`,
  `Spec.truncInt`, `Spec.fromInt` (D128/Spec/Arith.lean) over `Spec.interp d.lo d.hi`.

  * `int64_spec`, `int32_spec`, `uint64_spec`, `uint32_spec`
        the function equals the saturating truncation `Spec.sat lo hi`, with the documented panic
        exactly on NaN (so: no other panic, termination, exact result and ok flag)
  * `int64_panics_iff_nan` (and siblings)  the panic happens exactly on NaN
  * `fromInt64_exact`, `fromInt32_exact`, `fromUint64_exact`, `fromUint32_exact`
        the result denotes exactly the integer (`Val.same`, i.e. same sign and value)
  * `fromInt64_interp` (and siblings)  structurally: `Spec.fromInt i` for i ≠ 0, the zero with
        exponent field 0 (+0·10^-6176) for i = 0
  * `int64_fromInt64` (and siblings)  round trip `T(FromT(i)) = (i, true)`
  * `truncInt_is_floor`   the specification's integer part is `±⌊|x|⌋` in ℚ (truncation toward
        zero), so the statements above are about the mathematical integer part
-/
import D128.Proofs.CanonCohort
set_option autoImplicit false

namespace Props.C10
open IntConvPf

/-- the value a bit pattern denotes -/
local notation "𝔳[" d "]" => Spec.interp (Gen.Decimal.lo d) (Gen.Decimal.hi d)

/-! ## 1. Decimal → fixed-width integer -/

theorem int64_spec (d : Gen.Decimal) :
    Gen.Decimal.Int64_ d =
      (match Spec.sat (-2 ^ 63) (2 ^ 63 - 1) 𝔳[d] with
        | none => .error (.explicit "Decimal(NaN).Int64()")
        | some (x, ok) => .ok (Int64.ofInt x, ok)) :=
  Int64_eq d

theorem int32_spec (d : Gen.Decimal) :
    Gen.Decimal.Int32_ d =
      (match Spec.sat (-2 ^ 31) (2 ^ 31 - 1) 𝔳[d] with
        | none => .error (.explicit "Decimal(NaN).Int32()")
        | some (x, ok) => .ok (Int32.ofInt x, ok)) :=
  Int32_eq d

theorem uint64_spec (d : Gen.Decimal) :
    Gen.Decimal.Uint64 d =
      (match Spec.sat 0 (2 ^ 64 - 1) 𝔳[d] with
        | none => .error (.explicit "Decimal(NaN).Uint64()")
        | some (x, ok) => .ok (UInt64.ofInt x, ok)) :=
  Uint64_eq d

theorem uint32_spec (d : Gen.Decimal) :
    Gen.Decimal.Uint32 d =
      (match Spec.sat 0 (2 ^ 32 - 1) 𝔳[d] with
        | none => .error (.explicit "Decimal(NaN).Uint32()")
        | some (x, ok) => .ok (UInt32.ofInt x, ok)) :=
  Uint32_eq d

/-- `Spec.sat` is `none` exactly on NaN -/
theorem sat_none_iff (lo hi : Int) (x : Spec.Val) : Spec.sat lo hi x = none ↔ x.isNaN = true := by
  cases x with
  | nan n p => simp [Spec.sat, Spec.Val.isNaN]
  | inf n => simp [Spec.sat, Spec.Val.isNaN]
  | fin n c e =>
    simp only [Spec.sat, Spec.Val.isNaN, Bool.false_eq_true, iff_false]
    split_ifs <;> simp

/-- `Int64` panics exactly on NaN (with the documented message), and never otherwise. -/
theorem int64_panics_iff_nan (d : Gen.Decimal) :
    (∃ p, Gen.Decimal.Int64_ d = .error p) ↔ Gen.Decimal.IsNaN d = true := by
  rw [int64_spec, ← Enc.interp_isNaN, ← sat_none_iff (-2 ^ 63) (2 ^ 63 - 1)]
  cases Spec.sat (-2 ^ 63) (2 ^ 63 - 1) 𝔳[d] <;> simp

theorem int32_panics_iff_nan (d : Gen.Decimal) :
    (∃ p, Gen.Decimal.Int32_ d = .error p) ↔ Gen.Decimal.IsNaN d = true := by
  rw [int32_spec, ← Enc.interp_isNaN, ← sat_none_iff (-2 ^ 31) (2 ^ 31 - 1)]
  cases Spec.sat (-2 ^ 31) (2 ^ 31 - 1) 𝔳[d] <;> simp

theorem uint64_panics_iff_nan (d : Gen.Decimal) :
    (∃ p, Gen.Decimal.Uint64 d = .error p) ↔ Gen.Decimal.IsNaN d = true := by
  rw [uint64_spec, ← Enc.interp_isNaN, ← sat_none_iff 0 (2 ^ 64 - 1)]
  cases Spec.sat 0 (2 ^ 64 - 1) 𝔳[d] <;> simp

theorem uint32_panics_iff_nan (d : Gen.Decimal) :
    (∃ p, Gen.Decimal.Uint32 d = .error p) ↔ Gen.Decimal.IsNaN d = true := by
  rw [uint32_spec, ← Enc.interp_isNaN, ← sat_none_iff 0 (2 ^ 32 - 1)]
  cases Spec.sat 0 (2 ^ 32 - 1) 𝔳[d] <;> simp

/-! ## 2. fixed-width integer → Decimal is exact -/

theorem fromInt64_interp (i : Int64) :
    𝔳[Gen.FromInt64 i] = if i = 0 then .fin false 0 (-6176) else Spec.fromInt i.toInt :=
  FromInt64_interp i

theorem fromInt32_interp (i : Int32) :
    𝔳[Gen.FromInt32 i] = if i = 0 then .fin false 0 (-6176) else Spec.fromInt i.toInt :=
  FromInt32_interp i

theorem fromUint64_interp (i : UInt64) :
    𝔳[Gen.FromUint64 i] = if i = 0 then .fin false 0 (-6176) else Spec.fromInt (i.toNat : Int) :=
  FromUint64_interp i

theorem fromUint32_interp (i : UInt32) :
    𝔳[Gen.FromUint32 i] = if i = 0 then .fin false 0 (-6176) else Spec.fromInt (i.toNat : Int) :=
  FromUint32_interp i

theorem fromInt64_exact (i : Int64) :
    Spec.Val.same 𝔳[Gen.FromInt64 i] (Spec.fromInt i.toInt) = true :=
  same_of_interp (fun h => by rw [h]; rfl) (FromInt64_interp i)

theorem fromInt32_exact (i : Int32) :
    Spec.Val.same 𝔳[Gen.FromInt32 i] (Spec.fromInt i.toInt) = true :=
  same_of_interp (fun h => by rw [h]; rfl) (FromInt32_interp i)

theorem fromUint64_exact (i : UInt64) :
    Spec.Val.same 𝔳[Gen.FromUint64 i] (Spec.fromInt (i.toNat : Int)) = true :=
  same_of_interp (fun h => by rw [h]; rfl) (FromUint64_interp i)

theorem fromUint32_exact (i : UInt32) :
    Spec.Val.same 𝔳[Gen.FromUint32 i] (Spec.fromInt (i.toNat : Int)) = true :=
  same_of_interp (fun h => by rw [h]; rfl) (FromUint32_interp i)

/-! ## 3. round trips -/

theorem int64_fromInt64 (i : Int64) : Gen.Decimal.Int64_ (Gen.FromInt64 i) = .ok (i, true) :=
  Int64_FromInt64 i

theorem int32_fromInt32 (i : Int32) : Gen.Decimal.Int32_ (Gen.FromInt32 i) = .ok (i, true) :=
  Int32_FromInt32 i

theorem uint64_fromUint64 (i : UInt64) : Gen.Decimal.Uint64 (Gen.FromUint64 i) = .ok (i, true) :=
  Uint64_FromUint64 i

theorem uint32_fromUint32 (i : UInt32) : Gen.Decimal.Uint32 (Gen.FromUint32 i) = .ok (i, true) :=
  Uint32_FromUint32 i


/-! ## 4. the specification's integer part is the rational floor of the magnitude -/

theorem truncInt_is_floor (n : Bool) (c : Nat) (e : Int) :
    Spec.truncInt (.fin n c e) =
      if n then -((⌊Spec.mag c e⌋₊ : Nat) : Int) else ((⌊Spec.mag c e⌋₊ : Nat) : Int) := by
  rw [truncInt_fin, CanonPf.truncMag_eq_floor]

end Props.C10
