/-
  Property C09 (binary floating-point conversions: `FromFloat64`, `FromFloat32`, `Decimal.Float64`,
  `Decimal.Float32`; the `big.Float` paths are not part of the generated model).

  Part 1, binary → decimal:
  `FromFloat64` and `FromFloat32` return the exact binary value rounded into the Decimal format — for ALL
  2^64 float64 and 2^32 float32 bit patterns, and for every valid value of `DefaultRoundingMode`
  (the property text asks for the default, nearest-even; the code passes `DefaultRoundingMode` to `reduce256`,
  and the theorems hold for each of the six modes).

  Statements only; the proofs assemble `D128/Proofs/FloatFrom*.lean`.  Every theorem is about the generated
  `Gen.FromFloat64` / `Gen.FromFloat32` (translation of /repo/convert.go) over `Go.F64` / `Go.F32` (IEEE bit
  patterns, `D128/Go/Float.lean`), against `Spec.flushOrRoundS` / `Spec.fromBinExpect`.

  * `fromFloat64_correct`, `fromFloat32_correct` : no panic; NaN ↦ NaN with the payload of the operation,
      ±Inf ↦ ±Inf, ±0 ↦ ±0, finite: the member of the format selected by the mode for the exact value `m·2^e`
  * `fromFloat64_spec`, `fromFloat32_spec`  : the same against the executable specification
      `Spec.fromBinExpect` (which decodes the bits on its own), default mode nearest-even
  * `fromFloat64_exact` : exact whenever the value is a member of the format

  How the proof goes (for the reader): the scaling loops of `FromFloat64` keep a 256-bit register that
  approximates the exact scaled value from below; every `div10`/`rsh` truncates and each later
  multiplication amplifies the error, so the register is NOT within one unit of the exact value (measured:
  up to ~1400 units); the proved invariant is a relative error ≤ 2^-236 (`FF.Close`).  The result of the
  rounding kernel therefore equals the correctly rounded exact value unless a rounding boundary lies in that
  window.  That this never happens for a float64 is a number-theoretic fact about each binary exponent, proved
  here by 2308 machine-checked certificates (`FF.Cert`, dual lattice vectors found by continued fractions)
  plus a 2-adic argument for the exponents where exactly representable values exist.

  Part 2, decimal → binary (proofs in `D128/Proofs/FloatTo*.lean`, namespace `F2`), for ALL 2^128 bit patterns:
  * `float64_total`, `float32_total`   : never panic, every loop terminates
  * `float64_specials`, `float32_specials`, `float64_sign` : NaN ↦ NaN, ±Inf ↦ ±Inf, ±0 ↦ ±0 (bit patterns), sign kept
  * `float64_adjacent`, `float32_adjacent` : finite non-zero `d`: the result has the sign of `d` and is a float
      adjacent to `|d|` (`F2.Adjacent64`: at least every float ≤ |d| and at most every float ≥ |d|, hence exact
      when `|d|` is representable and otherwise the lower or the upper neighbour — error below one ulp;
      ±Inf only when `|d|` exceeds every finite float).  NOT correctly rounded (the code truncates before the
      final rounding): `9007199254740993.000000000000000001 ↦ 2^53`, nearest is `2^53+2` — allowed by the property.
  * `float64_overflow`, `float64_underflow` : `|d| ≥ 2^1024 ⇒ ±Inf`, `|d| ≤ 2^-1075 ⇒ ±0`
  * `float64_spec`, `float32_spec` : the result passes the executable check `Spec.binAdjacent Spec.f64 / f32`
  Part 3, round trip:
  * `float64_roundtrip`, `float32_roundtrip` : `FromFloat64(f).Float64() == f`, `FromFloat32(f).Float32() == f`
      for every non-NaN `f`, bit for bit (NaN ↦ the canonical NaN), every valid default mode.
-/
import D128.Proofs.FloatFromSpec
import D128.Proofs.FloatToRoundTrip
import D128.Proofs.FloatToSpec
import D128.Proofs.FloatToSpec32
set_option autoImplicit false

namespace Props.C09
open Go

/-- the value a bit pattern denotes -/
local notation "𝔳[" d "]" => Spec.interp (Gen.Decimal.lo d) (Gen.Decimal.hi d)

/-- **FromFloat64 is correctly rounded** (every bit pattern, every valid default mode `m`):
NaN ↦ NaN with payload `FromFloat64()`, ±Inf ↦ ±Inf, otherwise `flushOrRoundS m sign |f| 0` (±0 for zeros). -/
theorem fromFloat64_correct (g : Globals) (f : F64) (m : Spec.Mode)
    (hm : Spec.Mode.ofNat? g.DefaultRoundingMode.toNat = some m) :
    ∃ r, Gen.FromFloat64 g f = .ok r ∧
      (𝔳[r]).same (if f.isNaN then .nan false 3 else if f.isInf then .inf f.sign
        else Spec.flushOrRoundS m f.sign f.mag 0) = true :=
  FF.fromFloat64_correct g f m hm

/-- **FromFloat32 is correctly rounded** (the widening `float64(f)` is exact). -/
theorem fromFloat32_correct (g : Globals) (f : F32) (m : Spec.Mode)
    (hm : Spec.Mode.ofNat? g.DefaultRoundingMode.toNat = some m) :
    ∃ r, Gen.FromFloat32 g f = .ok r ∧
      (𝔳[r]).same (if f.isNaN then .nan false 2 else if f.isInf then .inf f.sign
        else Spec.flushOrRoundS m f.sign f.mag 0) = true :=
  FF.fromFloat32_correct g f m hm

/-- against the executable specification, default mode nearest-even (mode byte 0) -/
theorem fromFloat64_spec (g : Globals) (hg : g.DefaultRoundingMode = 0) (f : F64) :
    ∃ r, Gen.FromFloat64 g f = .ok r ∧
      (𝔳[r]).same (Spec.fromBinExpect Spec.f64 3 f.bits.toNat) = true :=
  FF.fromFloat64_fromBinExpect g hg f

theorem fromFloat32_spec (g : Globals) (hg : g.DefaultRoundingMode = 0) (f : F32) :
    ∃ r, Gen.FromFloat32 g f = .ok r ∧
      (𝔳[r]).same (Spec.fromBinExpect Spec.f32 2 f.bits.toNat) = true :=
  FF.fromFloat32_fromBinExpect g hg f

/-- **exact whenever it fits**: if `|f| = c·10^e` with `0 < c ≤ Cmax`, `Emin ≤ e ≤ Emax`, the result is a
finite Decimal of the sign of `f` whose value is exactly `|f|` (in every mode). -/
theorem fromFloat64_exact (g : Globals) (f : F64) (m : Spec.Mode)
    (hm : Spec.Mode.ofNat? g.DefaultRoundingMode.toNat = some m)
    (hn : f.isNaN = false) (hi : f.isInf = false) (c : Nat) (e : Int) (hc0 : 0 < c)
    (hc : c ≤ Spec.Cmax) (he1 : Spec.Emin ≤ e) (he2 : e ≤ Spec.Emax)
    (hval : f.mag = (c : ℚ) * (10 : ℚ) ^ e) :
    ∃ r c' e', Gen.FromFloat64 g f = .ok r ∧ 𝔳[r] = .fin f.sign c' e' ∧
      (c' : ℚ) * (10 : ℚ) ^ e' = f.mag :=
  FF.fromFloat64_exact g f m hm hn hi c e hc0 hc he1 he2 hval

/-! ## the hypotheses are satisfiable / concrete instances -/

/-- 0.1 (not representable: 55 significant digits), default mode -/
example := fromFloat64_correct ⟨0⟩ ⟨0x3fb999999999999a⟩ .nearestEven rfl
/-- the largest float64 (|f| ≥ 2^(53+192): the `div10` loop runs 231 times), mode toZero -/
example := fromFloat64_correct ⟨2⟩ ⟨0x7fefffffffffffff⟩ .toZero rfl
/-- the smallest subnormal 2^-1074 (751 significant digits), mode awayFromZero, negative -/
example := fromFloat64_correct ⟨3⟩ ⟨0x8000000000000001⟩ .awayFromZero rfl
/-- a float32 NaN -/
example := fromFloat32_correct ⟨0⟩ ⟨0x7fc00001⟩ .nearestEven rfl
/-- 0.5 = 5·10^-1 is a member: exact -/
example := fromFloat64_exact ⟨0⟩ ⟨0x3fe0000000000000⟩ .nearestEven rfl (by decide) (by decide) 5 (-1)
  (by decide) (by decide) (by decide) (by decide)
  (by
    have h : (F64.mk 0x3fe0000000000000).dyadic = (2 ^ 52, -53) := by decide
    unfold F64.mag; rw [h]; norm_num)

/-! ## Part 2: Decimal → float64 / float32 -/

open Gen in
theorem float64_total (d : Gen.Decimal) : ∃ r, Gen.Decimal.Float64 d = .ok r := F2.Float64_total d

open Gen in
theorem float32_total (d : Gen.Decimal) : ∃ r, Gen.Decimal.Float32 d = .ok r := F2.Float32_total d

/-- NaN ↦ `math.NaN()`, ±Inf ↦ ±Inf, ±0 ↦ ±0, as bit patterns -/
theorem float64_specials (d : Gen.Decimal) :
    (∀ n p, 𝔳[d] = .nan n p → Gen.Decimal.Float64 d = .ok ⟨0x7ff8000000000001⟩) ∧
    (𝔳[d] = .inf false → Gen.Decimal.Float64 d = .ok ⟨0x7ff0000000000000⟩) ∧
    (𝔳[d] = .inf true → Gen.Decimal.Float64 d = .ok ⟨0xfff0000000000000⟩) ∧
    (∀ x, 𝔳[d] = .fin false 0 x → Gen.Decimal.Float64 d = .ok ⟨0⟩) ∧
    (∀ x, 𝔳[d] = .fin true 0 x → Gen.Decimal.Float64 d = .ok ⟨0x8000000000000000⟩) :=
  F2.Float64_specials d

theorem float32_specials (d : Gen.Decimal) :
    (∀ n p, 𝔳[d] = .nan n p → Gen.Decimal.Float32 d = .ok ⟨0x7fc00000⟩) ∧
    (𝔳[d] = .inf false → Gen.Decimal.Float32 d = .ok ⟨0x7f800000⟩) ∧
    (𝔳[d] = .inf true → Gen.Decimal.Float32 d = .ok ⟨0xff800000⟩) ∧
    (∀ x, 𝔳[d] = .fin false 0 x → Gen.Decimal.Float32 d = .ok ⟨0⟩) ∧
    (∀ x, 𝔳[d] = .fin true 0 x → Gen.Decimal.Float32 d = .ok ⟨0x80000000⟩) :=
  F2.Float32_specials d

/-- the sign of every non-NaN result is the sign of `d` -/
theorem float64_sign (d : Gen.Decimal) (r : F64) (hr : Gen.Decimal.Float64 d = .ok r)
    (hn : (𝔳[d]).isNaN = false) : r.sign = (𝔳[d]).neg :=
  F2.Float64_sign d r hr hn

/-- **Float64 returns a float adjacent to the exact value** (finite non-zero `d = ±c·10^x`) -/
theorem float64_adjacent (d : Gen.Decimal) (n : Bool) (c : ℕ) (x : ℤ) (h : 𝔳[d] = .fin n c x)
    (hc0 : c ≠ 0) :
    ∃ r, Gen.Decimal.Float64 d = .ok r ∧ F2.Adjacent64 n ((c : ℚ) * 10 ^ x) r :=
  F2.Float64_adjacent d n c x h hc0

/-- **Float32 returns a float32 adjacent to the exact value** (the double rounding is harmless) -/
theorem float32_adjacent (d : Gen.Decimal) (n : Bool) (c : ℕ) (x : ℤ) (h : 𝔳[d] = .fin n c x)
    (hc0 : c ≠ 0) :
    ∃ r, Gen.Decimal.Float32 d = .ok r ∧ F2.Adjacent32 n ((c : ℚ) * 10 ^ x) r :=
  F2.Float32_adjacent d n c x h hc0

/-- above the float64 range: ±Inf -/
theorem float64_overflow (d : Gen.Decimal) (n : Bool) (c : ℕ) (x : ℤ) (h : 𝔳[d] = .fin n c x)
    (hc0 : c ≠ 0) (hv : (2 : ℚ) ^ (1024 : ℤ) ≤ (c : ℚ) * 10 ^ x) :
    Gen.Decimal.Float64 d = .ok (F2.infRes n) :=
  F2.Float64_overflow d n c x h hc0 hv

/-- at most half the smallest subnormal: ±0 -/
theorem float64_underflow (d : Gen.Decimal) (n : Bool) (c : ℕ) (x : ℤ) (h : 𝔳[d] = .fin n c x)
    (hc0 : c ≠ 0) (hv : (c : ℚ) * 10 ^ x ≤ (2 : ℚ) ^ (-1075 : ℤ)) :
    Gen.Decimal.Float64 d = .ok (F2.zeroRes n) :=
  F2.Float64_underflow d n c x h hc0 hv

/-- against the executable specification: whatever `d.Float64()` returns passes `Spec.binAdjacent`
(the check of the differential harness), for every bit pattern `d` -/
theorem float64_spec (d : Gen.Decimal) (r : F64) (hr : Gen.Decimal.Float64 d = .ok r) :
    Spec.binAdjacent Spec.f64 𝔳[d] r.bits.toNat = none :=
  F2.Float64_binAdjacent d r hr

theorem float32_spec (d : Gen.Decimal) (r : F32) (hr : Gen.Decimal.Float32 d = .ok r) :
    Spec.binAdjacent Spec.f32 𝔳[d] r.bits.toNat = none :=
  F2.Float32_binAdjacent d r hr

/-! ## Part 3: round trips -/

/-- **`FromFloat64(f).Float64() == f`** for every non-NaN float64 (normal, subnormal, ±0, ±Inf), bit for bit,
under every valid default rounding mode -/
theorem float64_roundtrip (g : Globals) (m : Spec.Mode)
    (hm : Spec.Mode.ofNat? g.DefaultRoundingMode.toNat = some m) (f : F64) (hn : f.isNaN = false) :
    ∃ d, Gen.FromFloat64 g f = .ok d ∧ Gen.Decimal.Float64 d = .ok f :=
  F2.float64_fromFloat64_roundtrip g m hm f hn

/-- **`FromFloat32(f).Float32() == f`** for every non-NaN float32 -/
theorem float32_roundtrip (g : Globals) (m : Spec.Mode)
    (hm : Spec.Mode.ofNat? g.DefaultRoundingMode.toNat = some m) (f : F32) (hn : f.isNaN = false) :
    ∃ d, Gen.FromFloat32 g f = .ok d ∧ Gen.Decimal.Float32 d = .ok f :=
  F2.float32_fromFloat32_roundtrip g m hm f hn

/-- NaN goes to the canonical NaN -/
theorem float64_roundtrip_nan (g : Globals) (f : F64) (hn : f.isNaN = true) :
    ∃ d, Gen.FromFloat64 g f = .ok d ∧ Gen.Decimal.Float64 d = .ok Go.math.NaN :=
  F2.float64_fromFloat64_nan g f hn

/-- the smallest subnormal, mode toNegInf -/
example := float64_roundtrip ⟨4⟩ .toNegInf rfl ⟨1⟩ (by decide)
/-- −Inf as float32 -/
example := float32_roundtrip ⟨0⟩ .nearestEven rfl ⟨0xff800000⟩ (by decide)
/-- `0.1000000000000000055511151231257827` is adjacent to a float -/
example := float64_adjacent ⟨4145161186368179427, 3457692824022322579⟩ false
  1000000000000000055511151231257827 (-34) (by decide) (by decide)

end Props.C09
