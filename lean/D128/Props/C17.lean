/-
  Property C17: Sqrt and Cbrt are correctly rounded up to a 1e-20 ulp midpoint margin.

  What is proved here about the generated `Gen.Sqrt` / `Gen.Cbrt` (translation of /repo/exp.go) against
  `Spec.specialCase`, `Spec.rootOk`, `Spec.judgeRoot` (D128/Spec/Elem.lean) over
  𝔳[d] = `Spec.interp d.lo d.hi`.  Statements only; the proofs assemble lemmas of
  `D128/Proofs/SpecialsUnary.lean` and `D128/Proofs/D192Root{Defs,Math,Finish,Exact,Core,Heron,Halley,Findings,Ops,Rel,SqrtIter,SqrtMain,CbrtIter,CbrtMain,Gen}.lean`.

  1. dispatch (ALL bit patterns, every `Globals`):
       `sqrt_nan`, `cbrt_nan`            NaN returned bit for bit
       `sqrt_zero`, `cbrt_zero`          ±0 returned bit for bit
       `sqrt_pos_inf`, `cbrt_inf`        +Inf (±Inf for Cbrt) returned bit for bit
       `sqrt_neg_inf`                    Sqrt(-Inf)      = nan(18, 6, 0), payload `sqrt | 6<<8`
       `sqrt_neg_finite`                 Sqrt(-finite≠0) = nan(18, 4, 0), payload `sqrt | 4<<8`
       `sqrt_special`, `cbrt_special`    the whole table `Spec.specialCase` (re-export of C15)
       `sqrt_judge_special`, `cbrt_judge_special`   … hence `Spec.judgeRoot … = .ok` on these operands
  2. staged normal forms `sqrt_staged`, `cbrt_staged`:
       `Gen.Sqrt g d = sqrtCore d >>= fun (res, trunc, dExp) => sqrtFinish g res trunc dExp`
       `Gen.Cbrt g d = cbrtCore d >>= fun (res, trunc) => cbrtFinish g (Signbit d) res trunc`
     core = decompose + seed + `Root.iter step 8` (Heron) resp. `7` (Halley) in `decomposed192`,
     finish = `reduce192 g.DefaultRoundingMode …` + overflow test + `compose`
  3. sign / shape: `cbrt_sign_neg` (negative argument ⇒ sign bit set, unconditional), `cbrt_shape`, `sqrt_shape`
     (the general path returns `inf neg` or `compose neg …`)
  4. THE FINAL STEP (main theorems): `sqrt_final_step`, `cbrt_final_step` — for every working-format value, ANY
     value of the sticky flag, nearest default mode: an iterate within `a` working units of the exact root with
     `(a+1)·1e20·(Cmax+1) < sig` is rounded to a Decimal accepted by `Spec.rootOk`;
     `final_step_any_mode` — every valid mode byte: within (1 + 1e-20) spacings;
     `sqrt_of_core`, `cbrt_of_core` — the corollaries for `Gen.Sqrt` / `Gen.Cbrt` with the verdict
     `Spec.judgeRoot … = .ok`, given what the core returns (the side conditions on `dExp` for Sqrt and on
     the flag for Cbrt are discharged: `Root.sqrtCore_dExp`, `Root.cbrtCore_flag`)
  5. perfect squares / cubes: `sqrt_exact_of_core`, `cbrt_exact_of_core` — exact root returned (nearest modes, any flag)
  5b. `sqrt_core_spec` (scaling `c·10^e = nrm·10^dExp`, `dExp` even, seed constants per parity class),
      `cbrt_core_flag`
  5c. convergence, conditional on per-step accuracy: `sqrt_of_heron` (8 Heron steps, each within relative
      η ≤ 1e-55 of the exact step, from a seed with 0.13·x₀² ≤ ν ≤ x₀²), `cbrt_of_halley` (7 Halley steps from a start
      value with x₀³/100 ≤ c·10^e ≤ 100·x₀³), `cbrt_core_start` (the code's start value satisfies that condition)
  6. FINDINGS (false for the current code; reproduced by `#eval`, recorded at the end of the file):
     under the directed default modes perfect squares/cubes are NOT returned exactly;
     `finding_sqrt4_toPosInf`, `finding_cbrt4096_toZero` prove it for the finish stage on the iterates of
     `Sqrt(4)` / `Cbrt(4096)`.

  7. UNCONDITIONAL (the contracts of `decomposed192.mul/add/quo` are discharged in
     `D128/Proofs/D192Root{Ops,Rel,SqrtIter,SqrtMain,CbrtIter,CbrtMain,Gen}.lean`):
       `sqrt_judge`, `cbrt_judge`       ALL 2^128 bit patterns, nearest default mode: no panic and
                                         `Spec.judgeRoot … = .ok` — this is property C17
       `sqrt_judge_default`, `cbrt_judge_default`   the same at `DefaultRoundingMode = ToNearestEven`
       `sqrt_correct`, `cbrt_correct`   the general path in `rootOk` form (result finite, sign of `d`)
       `sqrt_exact`, `cbrt_exact`       perfect squares / cubes of Decimals give exactly the root (nearest modes)
       `sqrt_total`, `cbrt_total`       EVERY valid mode byte, every bit pattern: no panic
       `sqrt_any_mode`, `cbrt_any_mode` every valid mode byte: within (1 + 1e-20) spacings of the root
     Proof route: seed exact and 1.078…2.67 times the root; each Heron step within relative `2^-185` of the
     exact step (quotient in [-1/LIM, +2^-185], sum and halving in [-1/LIM, 0], LIM = 25·2^184); each Halley step
     within `2^-184`; `heron8`/`halley7`; an un-normalised iterate can only arise when every operation so far was
     exact with flag 0, in which case the final rounding is handled by rescaling the specification.
  Only the invalid mode bytes (≥ 6) are not covered.  Numerically (`#eval` on some thousands of arguments over
  the whole exponent range) the last iterate has 57–58 digits, is within −4…+89 working units of the root;
  the flag is 1 for Sqrt (sticky through all iterations) and 0 or 1 for Cbrt.
  OBSERVATION: the two linear seeds of `Sqrt` look exchanged between the parity classes (`0.259 + 0.819·x` is
  Hull's approximation on [0.1,1) but is used on [1,10), and vice versa): the first guess is up to 2.67 times
  the root instead of within 4 %, and all 8 Heron steps are needed (see D128/Proofs/D192RootCore.lean).
-/
import D128.Proofs.SpecialsUnary
import D128.Proofs.D192RootFinish
import D128.Proofs.D192RootExact
import D128.Proofs.D192RootCore
import D128.Proofs.D192RootHeron
import D128.Proofs.D192RootHalley
import D128.Proofs.D192RootFindings
import D128.Proofs.D192RootGen
set_option autoImplicit false
set_option maxRecDepth 4096

namespace Props.C17
open Root

/-- the value a bit pattern denotes -/
local notation "𝔳[" d "]" => Spec.interp (Gen.Decimal.lo d) (Gen.Decimal.hi d)

/-! ## 1. Dispatch on special operands, zeros and negative arguments -/

theorem sqrt_nan (g : Globals) (d : Gen.Decimal) (h : Gen.Decimal.IsNaN d = true) :
    Gen.Sqrt g d = .ok d := Sp.Sqrt_nan g d h
theorem cbrt_nan (g : Globals) (d : Gen.Decimal) (h : Gen.Decimal.IsNaN d = true) :
    Gen.Cbrt g d = .ok d := Sp.Cbrt_nan g d h

theorem inf_class (d : Gen.Decimal) (h : Gen.Decimal.isInf d = true) :
    Gen.Decimal.isSpecial d = true ∧ Gen.Decimal.IsNaN d = false := by
  rcases Enc.classify_partition d with ⟨a, b, c, e⟩ | ⟨a, b, c, e⟩ | ⟨a, b, c, e⟩ | ⟨a, b, c, e⟩
  all_goals first
    | exact ⟨c, a⟩
    | (rw [h] at b; cases b)

/-- zeros return themselves bit for bit (`Sqrt(-0) = -0`) -/
theorem sqrt_zero (g : Globals) (d : Gen.Decimal) (hs : Gen.Decimal.isSpecial d = false)
    (hz : Gen.Decimal.IsZero d = true) : Gen.Sqrt g d = .ok d := by
  unfold Gen.Sqrt
  simp only [hs, hz, if_true, if_false, Bool.false_eq_true]; rfl
theorem cbrt_zero (g : Globals) (d : Gen.Decimal) (hz : Gen.Decimal.IsZero d = true) :
    Gen.Cbrt g d = .ok d := by
  unfold Gen.Cbrt
  simp only [hz, Bool.or_true, if_true]; rfl

/-- `+Inf` returns itself bit for bit -/
theorem sqrt_pos_inf (g : Globals) (d : Gen.Decimal) (hi : Gen.Decimal.isInf d = true)
    (hn : Gen.Decimal.Signbit d = false) : Gen.Sqrt g d = .ok d := by
  obtain ⟨h1, h2⟩ := inf_class d hi
  unfold Gen.Sqrt
  simp only [h1, h2, hn, if_true, if_false, Bool.false_eq_true]; rfl
/-- `±Inf` returns itself bit for bit -/
theorem cbrt_inf (g : Globals) (d : Gen.Decimal) (hi : Gen.Decimal.isInf d = true) :
    Gen.Cbrt g d = .ok d := by
  obtain ⟨h1, h2⟩ := inf_class d hi
  unfold Gen.Cbrt
  simp only [h1, Bool.true_or, if_true]; rfl

/-- `Sqrt(-Inf)` is the NaN with payload `sqrt | 6 << 8` (operation 18 = `payloadOpSqrt`, operand class
6 = `payloadValNegInfinite`) -/
theorem sqrt_neg_inf (g : Globals) (d : Gen.Decimal) (hi : Gen.Decimal.isInf d = true)
    (hn : Gen.Decimal.Signbit d = true) :
    Gen.Sqrt g d = .ok (Gen.nan 18 6 0) ∧
      Gen.Decimal.Payload_ (Gen.nan 18 6 0) = .ok ((18 : UInt64) ||| (6 : UInt64) <<< (8 : UInt64)) ∧
      𝔳[Gen.nan 18 6 0] = Spec.invalid1 .sqrt 𝔳[d] := by
  obtain ⟨h1, h2⟩ := inf_class d hi
  refine ⟨?_, ?_, ?_⟩
  · unfold Gen.Sqrt
    simp only [h1, h2, hn, if_true, if_false, Bool.false_eq_true]; rfl
  · rw [Enc.Payload_nan]; rfl
  · rw [Sp.view_inf d hi, hn]; rfl

/-- `Sqrt` of a negative finite non-zero argument is the NaN with payload `sqrt | 4 << 8` (operand class
4 = `payloadValNegFinite`) -/
theorem sqrt_neg_finite (g : Globals) (d : Gen.Decimal) (hs : Gen.Decimal.isSpecial d = false)
    (hz : Gen.Decimal.IsZero d = false) (hn : Gen.Decimal.Signbit d = true) :
    Gen.Sqrt g d = .ok (Gen.nan 18 4 0) ∧
      Gen.Decimal.Payload_ (Gen.nan 18 4 0) = .ok ((18 : UInt64) ||| (4 : UInt64) <<< (8 : UInt64)) ∧
      𝔳[Gen.nan 18 4 0] = Spec.invalid1 .sqrt 𝔳[d] := by
  refine ⟨?_, ?_, ?_⟩
  · unfold Gen.Sqrt
    simp only [hs, hz, hn, if_true, if_false, Bool.false_eq_true]; rfl
  · rw [Enc.Payload_nan]; rfl
  · rw [Enc.interp_decompose d hs, hn]
    have hc : (Gen.Decimal.decompose d).1.toNat ≠ 0 := by
      have := Sp.IsZero_eq_sig d; rw [hz] at this; simpa using this.symm
    unfold Spec.invalid1
    rw [Sp.classCode_fin _ _ _ hc]; rfl

/-- the complete special-operand dispatch against the specification table `Spec.specialCase`
(NaN, ±Inf, ±0, negative argument of `Sqrt`) -/
theorem sqrt_special (g : Globals) (d : Gen.Decimal) (w : Spec.Val)
    (h : Spec.specialCase .sqrt 𝔳[d] = some w) :
    ∃ r, Gen.Sqrt g d = .ok r ∧ (𝔳[r]).same w = true := Sp.Sqrt_special g d w h
theorem cbrt_special (g : Globals) (d : Gen.Decimal) (w : Spec.Val)
    (h : Spec.specialCase .cbrt 𝔳[d] = some w) :
    ∃ r, Gen.Cbrt g d = .ok r ∧ (𝔳[r]).same w = true := Sp.Cbrt_special g d w h

theorem judge_of_special (f : Spec.Fn) (x r w : Spec.Val) (h : Spec.specialCase f x = some w)
    (hs : r.same w = true) : Spec.judgeRoot f x r = .ok := by
  unfold Spec.judgeRoot; rw [h]; simp [hs]

/-- on the operands decided by class alone the verdict of the C17 judge is `ok` -/
theorem sqrt_judge_special (g : Globals) (d : Gen.Decimal) (w : Spec.Val)
    (h : Spec.specialCase .sqrt 𝔳[d] = some w) :
    ∃ r, Gen.Sqrt g d = .ok r ∧ Spec.judgeRoot .sqrt 𝔳[d] 𝔳[r] = .ok := by
  obtain ⟨r, hr, hs⟩ := sqrt_special g d w h
  exact ⟨r, hr, judge_of_special _ _ _ _ h hs⟩
theorem cbrt_judge_special (g : Globals) (d : Gen.Decimal) (w : Spec.Val)
    (h : Spec.specialCase .cbrt 𝔳[d] = some w) :
    ∃ r, Gen.Cbrt g d = .ok r ∧ Spec.judgeRoot .cbrt 𝔳[d] 𝔳[r] = .ok := by
  obtain ⟨r, hr, hs⟩ := cbrt_special g d w h
  exact ⟨r, hr, judge_of_special _ _ _ _ h hs⟩

theorem judge_sqrt_fin (c : Nat) (e : Int) (rc : Nat) (re : Int) (hc : c ≠ 0)
    (h : Spec.rootOk 2 c e rc re = true) :
    Spec.judgeRoot .sqrt (.fin false c e) (.fin false rc re) = .ok := by
  have h0 : (c == 0) = false := by simpa using hc
  simp [Spec.judgeRoot, Spec.specialCase, h0, h]
theorem judge_cbrt_fin (n : Bool) (c : Nat) (e : Int) (rc : Nat) (re : Int) (hc : c ≠ 0)
    (h : Spec.rootOk 3 c e rc re = true) :
    Spec.judgeRoot .cbrt (.fin n c e) (.fin n rc re) = .ok := by
  have h0 : (c == 0) = false := by simpa using hc
  cases n <;> simp [Spec.judgeRoot, Spec.specialCase, h0, h]

/-! ## 2. Staged normal forms -/

/-- finite, non-zero, non-negative `d`: `Sqrt` is its core (decompose, linear seed, 8 Heron steps in the
57-digit working format) followed by its finish stage (exponent halving, `reduce192` at the default
rounding mode, overflow test, `compose`) -/
theorem sqrt_staged (g : Globals) (d : Gen.Decimal) (h1 : Gen.Decimal.isSpecial d = false)
    (h2 : Gen.Decimal.IsZero d = false) (h3 : Gen.Decimal.Signbit d = false) :
    Gen.Sqrt g d = sqrtCore d >>= fun x => sqrtFinish g x.1 x.2.1 x.2.2 := Sqrt_eq g d h1 h2 h3

/-- finite non-zero `d`: `Cbrt` is its core (decompose, start value, 7 Halley steps) followed by its
finish stage with the sign of `d` -/
theorem cbrt_staged (g : Globals) (d : Gen.Decimal) (h1 : Gen.Decimal.isSpecial d = false)
    (h2 : Gen.Decimal.IsZero d = false) :
    Gen.Cbrt g d = cbrtCore d >>= fun x => cbrtFinish g (Gen.Decimal.Signbit d) x.1 x.2 :=
  Cbrt_eq g d h1 h2

/-! ## 3. Sign -/

/-- whatever `Cbrt` returns for a negative finite non-zero argument has the sign bit set (no further
hypothesis; that it is finite with the right value is part of `cbrt_of_core`) -/
theorem cbrt_sign_neg (g : Globals) (d r : Gen.Decimal) (h1 : Gen.Decimal.isSpecial d = false)
    (h2 : Gen.Decimal.IsZero d = false) (hn : Gen.Decimal.Signbit d = true)
    (hr : Gen.Cbrt g d = .ok r) : Gen.Decimal.Signbit r = true := by
  rw [Cbrt_eq g d h1 h2, hn] at hr
  cases hc : cbrtCore d with
  | error e => rw [hc] at hr; cases hr
  | ok x =>
    rw [hc] at hr
    exact finishK_sign_neg _ _ _ _ r hr

/-- the result of `Cbrt` on its general path is an infinity with the sign of `d` or `compose (Signbit d) …`
— never a NaN constructor -/
theorem cbrt_shape (g : Globals) (d r : Gen.Decimal) (h1 : Gen.Decimal.isSpecial d = false)
    (h2 : Gen.Decimal.IsZero d = false) (hr : Gen.Cbrt g d = .ok r) :
    r = Gen.inf (Gen.Decimal.Signbit d) ∨ ∃ s e, r = Gen.compose (Gen.Decimal.Signbit d) s e := by
  rw [Cbrt_eq g d h1 h2] at hr
  cases hc : cbrtCore d with
  | error e => rw [hc] at hr; cases hr
  | ok x =>
    rw [hc] at hr
    rcases finishK_shape _ _ _ _ _ r hr with h | ⟨s, e, -, -, h⟩
    · exact Or.inl h
    · exact Or.inr ⟨s, e, h⟩

/-- the same for `Sqrt`: `+Inf` or `compose false …` -/
theorem sqrt_shape (g : Globals) (d r : Gen.Decimal) (h1 : Gen.Decimal.isSpecial d = false)
    (h2 : Gen.Decimal.IsZero d = false) (h3 : Gen.Decimal.Signbit d = false)
    (hr : Gen.Sqrt g d = .ok r) : r = Gen.inf false ∨ ∃ s e, r = Gen.compose false s e := by
  rw [Sqrt_eq g d h1 h2 h3] at hr
  cases hc : sqrtCore d with
  | error e => rw [hc] at hr; cases hr
  | ok x =>
    rw [hc] at hr
    rcases finishK_shape _ _ _ _ _ r hr with h | ⟨s, e, -, -, h⟩
    · exact Or.inl h
    · exact Or.inr ⟨s, e, h⟩

/-! ## 4. The final step: a near-root iterate is rounded to a Decimal that `Spec.rootOk` accepts -/

/-- **Final step of `Sqrt`.**  For EVERY working-format value `res`, every flag value in {0, 1, -1} and
every exponent `dExp` (no-wrap ranges implied by the Decimal exponent range): if the default rounding mode
is a nearest mode, the exact square root of `c·10^e` (a non-zero Decimal) lies within `a` working units
of `res.sig` — stated in ℚ as `((sig ∓ a)·10^E)² ≤/≥ c·10^e`, `E = res.exp + dExp/2` — and
`(a+1)·1e20·(Cmax+1) < res.sig` (e.g. `a ≤ 76` for a 57-digit and `a ≤ 769` for a 58-digit iterate), then
the finish stage returns without panic a non-negative finite Decimal `rc·10^re` with
`Spec.rootOk 2 c e rc re`: one of the two Decimals adjacent to the root, error ≤ (1/2 + 1e-20) ulp. -/
theorem sqrt_final_step (g : Globals) (m : Spec.Mode) (res : Gen.decomposed192) (trunc : Int8)
    (dExp : Int16) (c : Nat) (e : Int) (a : Nat)
    (hm : Spec.Mode.ofNat? g.DefaultRoundingMode.toNat = some m)
    (hn : m = .nearestEven ∨ m = .nearestAway)
    (ht : trunc = 0 ∨ trunc = 1 ∨ trunc = -1)
    (hr0 : -9000 ≤ res.exp.toInt) (hr1 : res.exp.toInt ≤ 9000)
    (hd0 : -9000 ≤ dExp.toInt) (hd1 : dExp.toInt ≤ 9000)
    (hc0 : 0 < c) (hc : c ≤ Spec.Cmax) (he0 : Spec.Emin ≤ e) (he1 : e ≤ Spec.Emax)
    (hN : (a + 1) * 10 ^ 20 * (Spec.Cmax + 1) < res.sig.toNat)
    (hlo : (((res.sig.toNat : ℚ) - a) * (10 : ℚ) ^ (res.exp.toInt + dExp.toInt.tdiv 2)) ^ 2
      ≤ (c : ℚ) * (10 : ℚ) ^ e)
    (hhi : (c : ℚ) * (10 : ℚ) ^ e
      ≤ (((res.sig.toNat : ℚ) + a) * (10 : ℚ) ^ (res.exp.toInt + dExp.toInt.tdiv 2)) ^ 2) :
    ∃ r rc re, sqrtFinish g res trunc dExp = .ok r ∧ 𝔳[r] = .fin false rc re ∧
      Spec.rootOk 2 c e rc re = true :=
  sqrtFinish_rootOk g m res trunc dExp c e a hm (by rcases hn with h | h <;> rw [h] <;> rfl) ht
    hr0 hr1 hd0 hd1 hc0 hc he0 he1 hN hlo hhi

/-- **Final step of `Cbrt`** (k = 3, sign `neg` of the argument). -/
theorem cbrt_final_step (g : Globals) (m : Spec.Mode) (neg : Bool) (res : Gen.decomposed192)
    (trunc : Int8) (c : Nat) (e : Int) (a : Nat)
    (hm : Spec.Mode.ofNat? g.DefaultRoundingMode.toNat = some m)
    (hn : m = .nearestEven ∨ m = .nearestAway)
    (ht : trunc = 0 ∨ trunc = 1 ∨ trunc = -1)
    (hr0 : -20000 ≤ res.exp.toInt) (hr1 : res.exp.toInt ≤ 13000)
    (hc0 : 0 < c) (hc : c ≤ Spec.Cmax) (he0 : Spec.Emin ≤ e) (he1 : e ≤ Spec.Emax)
    (hN : (a + 1) * 10 ^ 20 * (Spec.Cmax + 1) < res.sig.toNat)
    (hlo : (((res.sig.toNat : ℚ) - a) * (10 : ℚ) ^ res.exp.toInt) ^ 3 ≤ (c : ℚ) * (10 : ℚ) ^ e)
    (hhi : (c : ℚ) * (10 : ℚ) ^ e ≤ (((res.sig.toNat : ℚ) + a) * (10 : ℚ) ^ res.exp.toInt) ^ 3) :
    ∃ r rc re, cbrtFinish g neg res trunc = .ok r ∧ 𝔳[r] = .fin neg rc re ∧
      Spec.rootOk 3 c e rc re = true :=
  cbrtFinish_rootOk g m neg res trunc c e a hm (by rcases hn with h | h <;> rw [h] <;> rfl) ht
    hr0 hr1 hc0 hc he0 he1 hN hlo hhi

/-- **Every valid mode byte** (the four directed modes included): the common finish stage
`finishK rm neg sig exp trunc` (`sqrtFinish g res t dExp = finishK g.DefaultRoundingMode false res.sig
(res.exp + dExp/2 + 6176) t`, `cbrtFinish g neg res t = finishK g.DefaultRoundingMode neg res.sig
(res.exp + 6176) t`, both by `rfl`) returns a finite non-zero Decimal of the given sign within
`(1 + 1e-20)` spacings of the root.  This is NOT `rootOk` (which demands 1/2 + 1e-20) and cannot be:
see the findings at the end of this file. -/
theorem final_step_any_mode (rm : UInt8) (m : Spec.Mode) (neg : Bool) (sig : U192) (exp : Int16)
    (trunc : Int8) (k c : Nat) (e : Int) (a : Nat)
    (hm : Spec.Mode.ofNat? rm.toNat = some m) (hk : k = 2 ∨ k = 3)
    (ht : trunc = 0 ∨ trunc = 1 ∨ trunc = -1)
    (hx0 : -20000 ≤ exp.toInt) (hx1 : exp.toInt ≤ 20000)
    (hc0 : 0 < c) (hc : c ≤ Spec.Cmax) (he0 : Spec.Emin ≤ e) (he1 : e ≤ Spec.Emax)
    (hN : (a + 1) * 10 ^ 20 * (Spec.Cmax + 1) < sig.toNat)
    (hlo : (((sig.toNat : ℚ) - a) * (10 : ℚ) ^ (exp.toInt - 6176)) ^ k ≤ (c : ℚ) * (10 : ℚ) ^ e)
    (hhi : (c : ℚ) * (10 : ℚ) ^ e ≤ (((sig.toNat : ℚ) + a) * (10 : ℚ) ^ (exp.toInt - 6176)) ^ k) :
    ∃ r rc re, finishK rm neg sig exp trunc = .ok r ∧ 𝔳[r] = .fin neg rc re ∧ rc ≠ 0 ∧ rc ≤ Spec.Cmax ∧
      ((rc : ℚ) * (10 : ℚ) ^ re - (1 + (10 : ℚ) ^ (-20 : Int)) * (10 : ℚ) ^ (Spec.spacingExpS (rc : ℚ) re) ≤ 0 ∨
        ((rc : ℚ) * (10 : ℚ) ^ re - (1 + (10 : ℚ) ^ (-20 : Int)) * (10 : ℚ) ^ (Spec.spacingExpS (rc : ℚ) re)) ^ k
          ≤ (c : ℚ) * (10 : ℚ) ^ e) ∧
      (c : ℚ) * (10 : ℚ) ^ e ≤
        ((rc : ℚ) * (10 : ℚ) ^ re + (1 + (10 : ℚ) ^ (-20 : Int)) * (10 : ℚ) ^ (Spec.spacingExpS (rc : ℚ) re)) ^ k :=
  finishK_within rm m neg sig exp trunc k c e a hm (by omega) (by omega) ht hx0 hx1 hc0 hc he0 he1 hN
    hlo hhi

/-- **`Gen.Sqrt` itself, from what its core returns.**  `d` finite, non-zero, non-negative, denoting
`c·10^e`; if `sqrtCore d` returns `(res, trunc, dExp)` (then `dExp` is even and in range:
`Root.sqrtCore_dExp`) and `res`, `trunc` satisfy the hypotheses of `sqrt_final_step` with
`E = res.exp + dExp/2`, then `Gen.Sqrt g d` does not panic and the C17 judge accepts its result. -/
theorem sqrt_of_core (g : Globals) (m : Spec.Mode) (d : Gen.Decimal) (res : Gen.decomposed192)
    (trunc : Int8) (dExp : Int16) (c : Nat) (e : Int) (a : Nat)
    (h1 : Gen.Decimal.isSpecial d = false) (h2 : Gen.Decimal.IsZero d = false)
    (h3 : Gen.Decimal.Signbit d = false) (hv : 𝔳[d] = .fin false c e)
    (hcore : sqrtCore d = .ok (res, trunc, dExp))
    (hm : Spec.Mode.ofNat? g.DefaultRoundingMode.toNat = some m)
    (hn : m = .nearestEven ∨ m = .nearestAway)
    (ht : trunc = 0 ∨ trunc = 1 ∨ trunc = -1)
    (hr0 : -9000 ≤ res.exp.toInt) (hr1 : res.exp.toInt ≤ 9000)
    (hN : (a + 1) * 10 ^ 20 * (Spec.Cmax + 1) < res.sig.toNat)
    (hlo : (((res.sig.toNat : ℚ) - a) * (10 : ℚ) ^ (res.exp.toInt + dExp.toInt / 2)) ^ 2
      ≤ (c : ℚ) * (10 : ℚ) ^ e)
    (hhi : (c : ℚ) * (10 : ℚ) ^ e
      ≤ (((res.sig.toNat : ℚ) + a) * (10 : ℚ) ^ (res.exp.toInt + dExp.toInt / 2)) ^ 2) :
    ∃ r rc re, Gen.Sqrt g d = .ok r ∧ 𝔳[r] = .fin false rc re ∧ Spec.rootOk 2 c e rc re = true ∧
      Spec.judgeRoot .sqrt 𝔳[d] 𝔳[r] = .ok := by
  obtain ⟨hev, hd0, hd1⟩ := sqrtCore_dExp d h1 res trunc dExp hcore
  have htd := (tdiv_two_of_even dExp.toInt hev).1
  obtain ⟨r, rc, re, hr, hvr, hok⟩ := Sqrt_rootOk_of_core g m d res trunc dExp c e a h1 h2 h3 hv hcore hm
    (by rcases hn with h | h <;> rw [h] <;> rfl) ht hr0 hr1 (by omega) (by omega) hN
    (by rw [htd]; exact hlo) (by rw [htd]; exact hhi)
  refine ⟨r, rc, re, hr, hvr, hok, ?_⟩
  have hc : c ≠ 0 := by
    rintro rfl
    have := Enc.interp_isZero d
    rw [hv, h2] at this; simp [Spec.Val.isZero] at this
  rw [hv, hvr]; exact judge_sqrt_fin c e rc re hc hok

/-- **`Gen.Cbrt` itself, from what its core returns**; the result has the sign of `d`.  No hypothesis
on the flag: `cbrtCore` only ever returns 0 or 1 (`Root.cbrtCore_flag`). -/
theorem cbrt_of_core (g : Globals) (m : Spec.Mode) (d : Gen.Decimal) (res : Gen.decomposed192)
    (trunc : Int8) (n : Bool) (c : Nat) (e : Int) (a : Nat)
    (h1 : Gen.Decimal.isSpecial d = false) (h2 : Gen.Decimal.IsZero d = false)
    (hv : 𝔳[d] = .fin n c e)
    (hcore : cbrtCore d = .ok (res, trunc))
    (hm : Spec.Mode.ofNat? g.DefaultRoundingMode.toNat = some m)
    (hn : m = .nearestEven ∨ m = .nearestAway)
    (hr0 : -20000 ≤ res.exp.toInt) (hr1 : res.exp.toInt ≤ 13000)
    (hN : (a + 1) * 10 ^ 20 * (Spec.Cmax + 1) < res.sig.toNat)
    (hlo : (((res.sig.toNat : ℚ) - a) * (10 : ℚ) ^ res.exp.toInt) ^ 3 ≤ (c : ℚ) * (10 : ℚ) ^ e)
    (hhi : (c : ℚ) * (10 : ℚ) ^ e ≤ (((res.sig.toNat : ℚ) + a) * (10 : ℚ) ^ res.exp.toInt) ^ 3) :
    ∃ r rc re, Gen.Cbrt g d = .ok r ∧ 𝔳[r] = .fin n rc re ∧ Spec.rootOk 3 c e rc re = true ∧
      Spec.judgeRoot .cbrt 𝔳[d] 𝔳[r] = .ok := by
  have ht : trunc = 0 ∨ trunc = 1 ∨ trunc = -1 := by
    rcases cbrtCore_flag d res trunc hcore with h | h
    · exact Or.inl h
    · exact Or.inr (Or.inl h)
  obtain ⟨r, rc, re, hr, hvr, hok⟩ := Cbrt_rootOk_of_core g m d res trunc n c e a h1 h2 hv hcore hm
    (by rcases hn with h | h <;> rw [h] <;> rfl) ht hr0 hr1 hN hlo hhi
  refine ⟨r, rc, re, hr, hvr, hok, ?_⟩
  have hc : c ≠ 0 := by
    rintro rfl
    have := Enc.interp_isZero d
    rw [hv, h2] at this; simp [Spec.Val.isZero] at this
  rw [hv, hvr]; exact judge_cbrt_fin n c e rc re hc hok

/-! ## 5. Perfect squares and cubes -/

/-- `d = (c'·10^e')²` with `c'·10^e'` a Decimal: under the hypotheses of `sqrt_of_core` (nearest mode, ANY
flag value) `Sqrt` returns exactly `c'·10^e'`.  The last iterate need not be the exact root (for
`Sqrt(4)` it is 2·10^57+1 with flag 1) — `a` working units off are absorbed. -/
theorem sqrt_exact_of_core (g : Globals) (m : Spec.Mode) (d : Gen.Decimal) (res : Gen.decomposed192)
    (trunc : Int8) (dExp : Int16) (c : Nat) (e : Int) (a : Nat) (c' : Nat) (e' : Int)
    (h1 : Gen.Decimal.isSpecial d = false) (h2 : Gen.Decimal.IsZero d = false)
    (h3 : Gen.Decimal.Signbit d = false) (hv : 𝔳[d] = .fin false c e)
    (hcore : sqrtCore d = .ok (res, trunc, dExp))
    (hm : Spec.Mode.ofNat? g.DefaultRoundingMode.toNat = some m)
    (hn : m = .nearestEven ∨ m = .nearestAway)
    (ht : trunc = 0 ∨ trunc = 1 ∨ trunc = -1)
    (hr0 : -9000 ≤ res.exp.toInt) (hr1 : res.exp.toInt ≤ 9000)
    (hN : (a + 1) * 10 ^ 20 * (Spec.Cmax + 1) < res.sig.toNat)
    (hlo : (((res.sig.toNat : ℚ) - a) * (10 : ℚ) ^ (res.exp.toInt + dExp.toInt / 2)) ^ 2
      ≤ (c : ℚ) * (10 : ℚ) ^ e)
    (hhi : (c : ℚ) * (10 : ℚ) ^ e
      ≤ (((res.sig.toNat : ℚ) + a) * (10 : ℚ) ^ (res.exp.toInt + dExp.toInt / 2)) ^ 2)
    (hc' : c' ≤ Spec.Cmax) (he0' : Spec.Emin ≤ e') (he1' : e' ≤ Spec.Emax)
    (hX : (c : ℚ) * (10 : ℚ) ^ e = ((c' : ℚ) * (10 : ℚ) ^ e') ^ 2) :
    ∃ r rc re, Gen.Sqrt g d = .ok r ∧ 𝔳[r] = .fin false rc re ∧
      (rc : ℚ) * (10 : ℚ) ^ re = (c' : ℚ) * (10 : ℚ) ^ e' := by
  obtain ⟨hev, hd0, hd1⟩ := sqrtCore_dExp d h1 res trunc dExp hcore
  have htd := (tdiv_two_of_even dExp.toInt hev).1
  exact Sqrt_exact_of_core g m d res trunc dExp c e a c' e' h1 h2 h3 hv hcore hm
    (by rcases hn with h | h <;> rw [h] <;> rfl) ht hr0 hr1 (by omega) (by omega) hN
    (by rw [htd]; exact hlo) (by rw [htd]; exact hhi) hc' he0' he1' hX

/-- `|d| = (c'·10^e')³`: `Cbrt` returns exactly `±c'·10^e'` (nearest mode). -/
theorem cbrt_exact_of_core (g : Globals) (m : Spec.Mode) (d : Gen.Decimal) (res : Gen.decomposed192)
    (trunc : Int8) (n : Bool) (c : Nat) (e : Int) (a : Nat) (c' : Nat) (e' : Int)
    (h1 : Gen.Decimal.isSpecial d = false) (h2 : Gen.Decimal.IsZero d = false)
    (hv : 𝔳[d] = .fin n c e)
    (hcore : cbrtCore d = .ok (res, trunc))
    (hm : Spec.Mode.ofNat? g.DefaultRoundingMode.toNat = some m)
    (hn : m = .nearestEven ∨ m = .nearestAway)
    (hr0 : -20000 ≤ res.exp.toInt) (hr1 : res.exp.toInt ≤ 13000)
    (hN : (a + 1) * 10 ^ 20 * (Spec.Cmax + 1) < res.sig.toNat)
    (hlo : (((res.sig.toNat : ℚ) - a) * (10 : ℚ) ^ res.exp.toInt) ^ 3 ≤ (c : ℚ) * (10 : ℚ) ^ e)
    (hhi : (c : ℚ) * (10 : ℚ) ^ e ≤ (((res.sig.toNat : ℚ) + a) * (10 : ℚ) ^ res.exp.toInt) ^ 3)
    (hc' : c' ≤ Spec.Cmax) (he0' : Spec.Emin ≤ e') (he1' : e' ≤ Spec.Emax)
    (hX : (c : ℚ) * (10 : ℚ) ^ e = ((c' : ℚ) * (10 : ℚ) ^ e') ^ 3) :
    ∃ r rc re, Gen.Cbrt g d = .ok r ∧ 𝔳[r] = .fin n rc re ∧
      (rc : ℚ) * (10 : ℚ) ^ re = (c' : ℚ) * (10 : ℚ) ^ e' := by
  have ht : trunc = 0 ∨ trunc = 1 ∨ trunc = -1 := by
    rcases cbrtCore_flag d res trunc hcore with h | h
    · exact Or.inl h
    · exact Or.inr (Or.inl h)
  exact Cbrt_exact_of_core g m d res trunc n c e a c' e' h1 h2 hv hcore hm
    (by rcases hn with h | h <;> rw [h] <;> rfl) ht hr0 hr1 hN hlo hhi hc' he0' he1' hX

/-! ## 5b. What the cores compute (starting point of a convergence proof) -/

/-- `sqrtCore`: scaling of the argument to `nrm` ∈ [1,10) / [0.1,1) with an EVEN remaining exponent
`dExp` (`c·10^e = nrm·10^dExp`), linear seed, 8 Heron steps; `U128.log10` does not panic. -/
theorem sqrt_core_spec (d : Gen.Decimal) (hsp : Gen.Decimal.isSpecial d = false)
    (hz : Gen.Decimal.IsZero d = false) :
    ∃ (nrm mul add : Gen.decomposed192) (dExp : Int16),
      sqrtCore d = (do
        let s ← sqrtSeed nrm mul add
        let s ← iter (sqrtStep nrm) 8 s
        pure (s.1, s.2, dExp)) ∧
      dExp.toInt % 2 = 0 ∧ -6176 ≤ dExp.toInt ∧ dExp.toInt ≤ 6150 ∧
      -39 ≤ nrm.exp.toInt ∧ nrm.exp.toInt ≤ 0 ∧
      nrm.sig.toNat = d.decompose.1.toNat ∧
      D192.val nrm * (10 : ℚ) ^ dExp.toInt
        = (d.decompose.1.toNat : ℚ) * (10 : ℚ) ^ (d.decompose.2.toInt - 6176) ∧
      ((1 ≤ D192.val nrm ∧ D192.val nrm < 10 ∧
          mul = { sig := { w0 := 819, w1 := 0, w2 := 0 }, exp := -3 } ∧
          add = { sig := { w0 := 259, w1 := 0, w2 := 0 }, exp := -3 }) ∨
       (1 / 10 ≤ D192.val nrm ∧ D192.val nrm < 1 ∧
          mul = { sig := { w0 := 259, w1 := 0, w2 := 0 }, exp := -2 } ∧
          add = { sig := { w0 := 819, w1 := 0, w2 := 0 }, exp := -4 })) :=
  sqrtCore_spec d hsp hz

/-- the flag that reaches the finish stage of `Cbrt` is 0 or 1 -/
theorem cbrt_core_flag (d : Gen.Decimal) (res : Gen.decomposed192) (trunc : Int8)
    (h : cbrtCore d = .ok (res, trunc)) : trunc = 0 ∨ trunc = 1 := cbrtCore_flag d res trunc h

/-! ## 5c. Convergence of the iterations, conditional on per-step accuracy

The universal claim of C17 is reduced to facts about single working-format operations: if every one of
the 8 Heron (7 Halley) steps returns a value within relative `η ≤ 1e-55` of the exact step (the real steps
have η ≈ 1.3e-56 resp. ≈ 2.3e-56: the divisor of `quo` loses its 58th digit), the iteration converges from
the code's first guess to within the tolerance of the final step, over ℚ and without irrational numbers
(`Root.heron8`, `Root.halley7`). -/

/-- **`Gen.Sqrt` from per-step accuracy.**  `ν` is the scaled argument (`ν·10^dExp = c·10^e`,
`sqrt_core_spec`), `x 0` the value of the seed (`0.13·x₀² ≤ ν ≤ x₀²`; the seeds of the code are between 1.078
and 2.67 times `√ν`), `x 1 … x 8` the values of the iterates, `x 8 = val res`, each within relative `η` of
the exact Heron step `(x + ν/x)/2` (written without division). -/
theorem sqrt_of_heron (g : Globals) (m : Spec.Mode) (d : Gen.Decimal) (res : Gen.decomposed192)
    (trunc : Int8) (dExp : Int16) (c : Nat) (e : Int) (ν η : ℚ) (x : ℕ → ℚ)
    (h1 : Gen.Decimal.isSpecial d = false) (h2 : Gen.Decimal.IsZero d = false)
    (h3 : Gen.Decimal.Signbit d = false) (hv : 𝔳[d] = .fin false c e)
    (hcore : sqrtCore d = .ok (res, trunc, dExp))
    (hm : Spec.Mode.ofNat? g.DefaultRoundingMode.toNat = some m)
    (hn : m = .nearestEven ∨ m = .nearestAway)
    (ht : trunc = 0 ∨ trunc = 1 ∨ trunc = -1)
    (hr0 : -9000 ≤ res.exp.toInt) (hr1 : res.exp.toInt ≤ 9000)
    (hnorm : 2 ^ 192 / 10 ≤ res.sig.toNat)
    (hν : 0 < ν) (hνX : ν * (10 : ℚ) ^ dExp.toInt = (c : ℚ) * (10 : ℚ) ^ e)
    (hx : ∀ n, n ≤ 8 → 0 < x n) (hx8 : x 8 = D192.val res)
    (hη0 : 0 ≤ η) (hη : η ≤ 1 / 10 ^ 55)
    (hseed : (1 - 87 / 100) * x 0 ^ 2 ≤ ν ∧ ν ≤ x 0 ^ 2)
    (hstep : ∀ n, n < 8 → (1 - η) * (x n ^ 2 + ν) ≤ 2 * x n * x (n + 1) ∧
      2 * x n * x (n + 1) ≤ (1 + η) * (x n ^ 2 + ν)) :
    ∃ r rc re, Gen.Sqrt g d = .ok r ∧ 𝔳[r] = .fin false rc re ∧ Spec.rootOk 2 c e rc re = true ∧
      Spec.judgeRoot .sqrt 𝔳[d] 𝔳[r] = .ok := by
  obtain ⟨r, rc, re, hr, hvr, hok⟩ := Root.sqrt_of_heron g m d res trunc dExp c e ν η x h1 h2 h3 hv hcore hm
    (by rcases hn with h | h <;> rw [h] <;> rfl) ht hr0 hr1 hnorm hν hνX hx hx8 hη0 hη hseed hstep
  refine ⟨r, rc, re, hr, hvr, hok, ?_⟩
  have hc : c ≠ 0 := by
    rintro rfl
    have := Enc.interp_isZero d
    rw [hv, h2] at this; simp [Spec.Val.isZero] at this
  rw [hv, hvr]; exact judge_sqrt_fin c e rc re hc hok

/-- **`Gen.Cbrt` from per-step accuracy.**  `x 0` the value of the start value (the start condition
`x₀³/100 ≤ c·10^e ≤ 100·x₀³` always holds for the code's start value: `Root.cbrtCore_start_ok`),
`x 1 … x 7` the values of the iterates, `x 7 = val res`, each within relative `η` of the exact Halley step
`x(x³+2a)/(2x³+a)`, `a = c·10^e`. -/
theorem cbrt_of_halley (g : Globals) (m : Spec.Mode) (d : Gen.Decimal) (res : Gen.decomposed192)
    (trunc : Int8) (n : Bool) (c : Nat) (e : Int) (η : ℚ) (x : ℕ → ℚ)
    (h1 : Gen.Decimal.isSpecial d = false) (h2 : Gen.Decimal.IsZero d = false)
    (hv : 𝔳[d] = .fin n c e)
    (hcore : cbrtCore d = .ok (res, trunc))
    (hm : Spec.Mode.ofNat? g.DefaultRoundingMode.toNat = some m)
    (hn : m = .nearestEven ∨ m = .nearestAway)
    (hr0 : -20000 ≤ res.exp.toInt) (hr1 : res.exp.toInt ≤ 13000)
    (hnorm : 2 ^ 192 / 10 ≤ res.sig.toNat)
    (hx : ∀ n, n ≤ 7 → 0 < x n) (hx7 : x 7 = D192.val res)
    (hη0 : 0 ≤ η) (hη : η ≤ 1 / 10 ^ 55)
    (hseed : (1 - 99 / 100) * x 0 ^ 3 ≤ (c : ℚ) * (10 : ℚ) ^ e ∧
      (c : ℚ) * (10 : ℚ) ^ e ≤ (1 + 99) * x 0 ^ 3)
    (hstep : ∀ n, n < 7 →
      (1 - η) * (x n * (x n ^ 3 + 2 * ((c : ℚ) * (10 : ℚ) ^ e)))
        ≤ x (n + 1) * (2 * x n ^ 3 + (c : ℚ) * (10 : ℚ) ^ e) ∧
      x (n + 1) * (2 * x n ^ 3 + (c : ℚ) * (10 : ℚ) ^ e)
        ≤ (1 + η) * (x n * (x n ^ 3 + 2 * ((c : ℚ) * (10 : ℚ) ^ e)))) :
    ∃ r rc re, Gen.Cbrt g d = .ok r ∧ 𝔳[r] = .fin n rc re ∧ Spec.rootOk 3 c e rc re = true ∧
      Spec.judgeRoot .cbrt 𝔳[d] 𝔳[r] = .ok := by
  have hc : c ≠ 0 := by
    rintro rfl
    have := Enc.interp_isZero d
    rw [hv, h2] at this; simp [Spec.Val.isZero] at this
  have hX : 0 < (c : ℚ) * (10 : ℚ) ^ e :=
    mul_pos (by exact_mod_cast Nat.pos_of_ne_zero hc) (zpow_pos (by norm_num) _)
  obtain ⟨r, rc, re, hr, hvr, hok⟩ := Root.cbrt_of_halley g m d res trunc n c e η x h1 h2 hv hcore hm
    (by rcases hn with h | h <;> rw [h] <;> rfl) hr0 hr1 hnorm hX hx hx7 hη0 hη hseed hstep
  refine ⟨r, rc, re, hr, hvr, hok, ?_⟩
  rw [hv, hvr]; exact judge_cbrt_fin n c e rc re hc hok

/-- the start value of `Cbrt` always satisfies the start condition of `cbrt_of_halley` -/
theorem cbrt_core_start (d : Gen.Decimal) (hsp : Gen.Decimal.isSpecial d = false)
    (hz : Gen.Decimal.IsZero d = false) :
    ∃ (arg arg2 start : Gen.decomposed192),
      cbrtCore d = iter (cbrtStep arg arg2) 7 (start, 0) ∧
      D192.val arg = (d.decompose.1.toNat : ℚ) * (10 : ℚ) ^ (d.decompose.2.toInt - 6176) ∧
      D192.val arg2 = 2 * D192.val arg ∧
      0 < D192.val start ∧
      (1 - 99 / 100) * D192.val start ^ 3 ≤ D192.val arg ∧
      D192.val arg ≤ (1 + 99) * D192.val start ^ 3 := cbrtCore_start_ok d hsp hz

/-! ## examples: the hypotheses are satisfiable -/

/-- `sqrt_final_step` on the iterate that reaches the finish stage for `Sqrt(2)` (see
`D128/Proofs/D192RootFinish.lean` for the same on `Cbrt(-2)` and on a directed mode) -/
example (g : Globals) (hg : g.DefaultRoundingMode = 0) :=
  sqrt_final_step g .nearestEven
    ⟨⟨12162708294298129116, 10086727926629614500, 4156000133564589919⟩, -57⟩ 1 0 2 0 4
    (by rw [hg]; rfl) (Or.inl rfl) (Or.inr (Or.inl rfl)) (by decide) (by decide) (by decide) (by decide)
    (by norm_num) (by unfold Spec.Cmax; norm_num) (by unfold Spec.Emin; norm_num)
    (by unfold Spec.Emax; norm_num)
    (by unfold Spec.Cmax; simp [U192.toNat])
    (by simp [U192.toNat]; norm_num)
    (by simp [U192.toNat]; norm_num)

/-- `cbrt_final_step` on the iterate that reaches the finish stage for `Cbrt(-2)`, flag 0 -/
example (g : Globals) (hg : g.DefaultRoundingMode = 0) :=
  cbrt_final_step g .nearestEven true
    ⟨⟨13785962329056660275, 14106435297053484570, 3702575191583772098⟩, -57⟩ 0 2 0 2
    (by rw [hg]; rfl) (Or.inl rfl) (Or.inl rfl) (by decide) (by decide)
    (by norm_num) (by unfold Spec.Cmax; norm_num) (by unfold Spec.Emin; norm_num)
    (by unfold Spec.Emax; norm_num)
    (by unfold Spec.Cmax; simp [U192.toNat])
    (by simp [U192.toNat]; norm_num)
    (by simp [U192.toNat]; norm_num)

/-- `sqrt_of_core` for `d = 2` (bits lo = 2, hi = 6176 << 49): every hypothesis except `hcore` is
discharged; `hcore` is exactly what `#eval Root.sqrtCore ⟨2, 3476778912330022912⟩` prints (the kernel
cannot evaluate the `while` loops of `decomposed192.mul/add/quo`; proving `hcore` needs their contracts). -/
example (g : Globals) (hg : g.DefaultRoundingMode = 0)
    (hcore : sqrtCore ⟨2, 3476778912330022912⟩ =
      .ok (⟨⟨12162708294298129116, 10086727926629614500, 4156000133564589919⟩, -57⟩, 1, 0)) :=
  sqrt_of_core g .nearestEven ⟨2, 3476778912330022912⟩ _ 1 0 2 0 4 (by decide) (by decide) (by decide)
    (by rw [Enc.interp_decompose _ (by decide)]
        have : Gen.Decimal.decompose ⟨2, 3476778912330022912⟩ = (⟨2, 0⟩, 6176) := by decide
        rw [this]; rfl)
    hcore (by rw [hg]; rfl) (Or.inl rfl) (Or.inr (Or.inl rfl)) (by decide) (by decide)
    (by unfold Spec.Cmax; simp [U192.toNat])
    (by simp [U192.toNat]; norm_num)
    (by simp [U192.toNat]; norm_num)

/-! ## 7. UNCONDITIONAL theorems (operation contracts of `decomposed192.mul/add/quo` discharged) -/

/-- the general path: `Spec.specialCase … = none` means a finite non-zero operand (non-negative for Sqrt) -/
theorem general_of_none_sqrt (d : Gen.Decimal) (h : Spec.specialCase .sqrt 𝔳[d] = none) :
    ∃ c e, 𝔳[d] = .fin false c e ∧ Gen.Decimal.isSpecial d = false ∧ Gen.Decimal.IsZero d = false ∧
      Gen.Decimal.Signbit d = false := by
  have hF := Enc.interp_isFin d
  have hZ := Enc.interp_isZero d
  have hN := Enc.interp_neg d
  cases hv : 𝔳[d] with
  | nan n p => rw [hv] at h; simp [Spec.specialCase] at h
  | inf n => rw [hv] at h; simp [Spec.specialCase] at h
  | fin n c e =>
    rw [hv] at h hF hZ hN
    have hc : c ≠ 0 := by
      rintro rfl; simp [Spec.specialCase] at h
    have hc' : (c == 0) = false := by simpa using hc
    cases n
    · refine ⟨c, e, rfl, ?_, ?_, ?_⟩
      · simpa [Spec.Val.isFin] using hF
      · rw [← hZ, Enc.isZero_fin]; simpa using hc
      · rw [← hN]; rfl
    · simp [Spec.specialCase, hc'] at h

theorem general_of_none_cbrt (d : Gen.Decimal) (h : Spec.specialCase .cbrt 𝔳[d] = none) :
    ∃ n c e, 𝔳[d] = .fin n c e ∧ Gen.Decimal.isSpecial d = false ∧ Gen.Decimal.IsZero d = false := by
  have hF := Enc.interp_isFin d
  have hZ := Enc.interp_isZero d
  cases hv : 𝔳[d] with
  | nan n p => rw [hv] at h; simp [Spec.specialCase] at h
  | inf n => rw [hv] at h; simp [Spec.specialCase] at h
  | fin n c e =>
    rw [hv] at h hF hZ
    have hc : c ≠ 0 := by
      rintro rfl; simp [Spec.specialCase] at h
    refine ⟨n, c, e, rfl, ?_, ?_⟩
    · simpa [Spec.Val.isFin] using hF
    · rw [← hZ, Enc.isZero_fin]; simpa using hc

/-- **C17 for `Sqrt`, general path.**  Every finite, non-zero, non-negative Decimal `d = c·10^e`, default
rounding mode nearest-even or nearest-away: `Sqrt(d)` does not panic and is a non-negative finite Decimal
`rc·10^re` accepted by `Spec.rootOk 2` — one of the two Decimals adjacent to `√d`, error ≤ (1/2 + 1e-20) ulp. -/
theorem sqrt_correct (g : Globals) (m : Spec.Mode) (d : Gen.Decimal) (c : Nat) (e : Int)
    (h1 : Gen.Decimal.isSpecial d = false) (h2 : Gen.Decimal.IsZero d = false)
    (h3 : Gen.Decimal.Signbit d = false) (hv : 𝔳[d] = .fin false c e)
    (hm : Spec.Mode.ofNat? g.DefaultRoundingMode.toNat = some m)
    (hn : m = .nearestEven ∨ m = .nearestAway) :
    ∃ r rc re, Gen.Sqrt g d = .ok r ∧ 𝔳[r] = .fin false rc re ∧ Spec.rootOk 2 c e rc re = true :=
  Sqrt_correct g m d c e h1 h2 h3 hv hm (by rcases hn with h | h <;> rw [h] <;> rfl)

/-- **C17 for `Cbrt`, general path.**  Every finite non-zero Decimal `d = ±c·10^e`: `Cbrt(d)` does not panic
and is a finite Decimal `±rc·10^re` with the sign of `d` accepted by `Spec.rootOk 3`. -/
theorem cbrt_correct (g : Globals) (m : Spec.Mode) (d : Gen.Decimal) (n : Bool) (c : Nat) (e : Int)
    (h1 : Gen.Decimal.isSpecial d = false) (h2 : Gen.Decimal.IsZero d = false)
    (hv : 𝔳[d] = .fin n c e)
    (hm : Spec.Mode.ofNat? g.DefaultRoundingMode.toNat = some m)
    (hn : m = .nearestEven ∨ m = .nearestAway) :
    ∃ r rc re, Gen.Cbrt g d = .ok r ∧ 𝔳[r] = .fin n rc re ∧ Spec.rootOk 3 c e rc re = true :=
  Cbrt_correct g m d n c e h1 h2 hv hm (by rcases hn with h | h <;> rw [h] <;> rfl)

/-- **Property C17 for `Sqrt`: ALL 2^128 bit patterns.**  With a nearest default mode, `Sqrt(d)` never panics
and the C17 judge accepts the result (special operands, zeros, negative arguments, and the general path). -/
theorem sqrt_judge (g : Globals) (m : Spec.Mode) (d : Gen.Decimal)
    (hm : Spec.Mode.ofNat? g.DefaultRoundingMode.toNat = some m)
    (hn : m = .nearestEven ∨ m = .nearestAway) :
    ∃ r, Gen.Sqrt g d = .ok r ∧ Spec.judgeRoot .sqrt 𝔳[d] 𝔳[r] = .ok := by
  cases hs : Spec.specialCase .sqrt 𝔳[d] with
  | some w => exact sqrt_judge_special g d w hs
  | none =>
    obtain ⟨c, e, hv, h1, h2, h3⟩ := general_of_none_sqrt d hs
    obtain ⟨r, rc, re, hr, hvr, hok⟩ := sqrt_correct g m d c e h1 h2 h3 hv hm hn
    refine ⟨r, hr, ?_⟩
    have hc : c ≠ 0 := by
      rintro rfl
      have := Enc.interp_isZero d
      rw [hv, h2] at this; simp [Spec.Val.isZero] at this
    rw [hv, hvr]; exact judge_sqrt_fin c e rc re hc hok

/-- **Property C17 for `Cbrt`: ALL 2^128 bit patterns.** -/
theorem cbrt_judge (g : Globals) (m : Spec.Mode) (d : Gen.Decimal)
    (hm : Spec.Mode.ofNat? g.DefaultRoundingMode.toNat = some m)
    (hn : m = .nearestEven ∨ m = .nearestAway) :
    ∃ r, Gen.Cbrt g d = .ok r ∧ Spec.judgeRoot .cbrt 𝔳[d] 𝔳[r] = .ok := by
  cases hs : Spec.specialCase .cbrt 𝔳[d] with
  | some w => exact cbrt_judge_special g d w hs
  | none =>
    obtain ⟨n, c, e, hv, h1, h2⟩ := general_of_none_cbrt d hs
    obtain ⟨r, rc, re, hr, hvr, hok⟩ := cbrt_correct g m d n c e h1 h2 hv hm hn
    refine ⟨r, hr, ?_⟩
    have hc : c ≠ 0 := by
      rintro rfl
      have := Enc.interp_isZero d
      rw [hv, h2] at this; simp [Spec.Val.isZero] at this
    rw [hv, hvr]; exact judge_cbrt_fin n c e rc re hc hok

/-- the package default `DefaultRoundingMode = ToNearestEven` (0) -/
theorem sqrt_judge_default (g : Globals) (hg : g.DefaultRoundingMode = 0) (d : Gen.Decimal) :
    ∃ r, Gen.Sqrt g d = .ok r ∧ Spec.judgeRoot .sqrt 𝔳[d] 𝔳[r] = .ok :=
  sqrt_judge g .nearestEven d (by rw [hg]; rfl) (Or.inl rfl)
theorem cbrt_judge_default (g : Globals) (hg : g.DefaultRoundingMode = 0) (d : Gen.Decimal) :
    ∃ r, Gen.Cbrt g d = .ok r ∧ Spec.judgeRoot .cbrt 𝔳[d] 𝔳[r] = .ok :=
  cbrt_judge g .nearestEven d (by rw [hg]; rfl) (Or.inl rfl)

/-- **Totality for every valid default rounding mode** (the four directed modes included): `Sqrt` never
panics, on any bit pattern. -/
theorem sqrt_total (g : Globals) (m : Spec.Mode) (d : Gen.Decimal)
    (hm : Spec.Mode.ofNat? g.DefaultRoundingMode.toNat = some m) : ∃ r, Gen.Sqrt g d = .ok r := by
  cases hs : Spec.specialCase .sqrt 𝔳[d] with
  | some w => obtain ⟨r, hr, -⟩ := sqrt_special g d w hs; exact ⟨r, hr⟩
  | none =>
    obtain ⟨c, e, hv, h1, h2, h3⟩ := general_of_none_sqrt d hs
    obtain ⟨r, -, -, hr, -⟩ := Sqrt_anymode g m d c e h1 h2 h3 hv hm
    exact ⟨r, hr⟩
theorem cbrt_total (g : Globals) (m : Spec.Mode) (d : Gen.Decimal)
    (hm : Spec.Mode.ofNat? g.DefaultRoundingMode.toNat = some m) : ∃ r, Gen.Cbrt g d = .ok r := by
  cases hs : Spec.specialCase .cbrt 𝔳[d] with
  | some w => obtain ⟨r, hr, -⟩ := cbrt_special g d w hs; exact ⟨r, hr⟩
  | none =>
    obtain ⟨n, c, e, hv, h1, h2⟩ := general_of_none_cbrt d hs
    obtain ⟨r, -, -, hr, -⟩ := Cbrt_anymode g m d n c e h1 h2 hv hm
    exact ⟨r, hr⟩

/-- **Every valid mode**: on the general path the result is a finite Decimal of the right sign within
`(1 + 1e-20)` spacings of the root (for the directed modes this cannot be improved to `rootOk`: findings). -/
theorem sqrt_any_mode (g : Globals) (m : Spec.Mode) (d : Gen.Decimal) (c : Nat) (e : Int)
    (h1 : Gen.Decimal.isSpecial d = false) (h2 : Gen.Decimal.IsZero d = false)
    (h3 : Gen.Decimal.Signbit d = false) (hv : 𝔳[d] = .fin false c e)
    (hm : Spec.Mode.ofNat? g.DefaultRoundingMode.toNat = some m) :
    ∃ r rc re, Gen.Sqrt g d = .ok r ∧ 𝔳[r] = .fin false rc re ∧ rc ≠ 0 ∧ rc ≤ Spec.Cmax ∧
      ((rc : ℚ) * (10 : ℚ) ^ re - (1 + (10 : ℚ) ^ (-20 : Int)) * (10 : ℚ) ^ (Spec.spacingExpS (rc : ℚ) re) ≤ 0 ∨
        ((rc : ℚ) * (10 : ℚ) ^ re - (1 + (10 : ℚ) ^ (-20 : Int)) * (10 : ℚ) ^ (Spec.spacingExpS (rc : ℚ) re)) ^ 2
          ≤ (c : ℚ) * (10 : ℚ) ^ e) ∧
      (c : ℚ) * (10 : ℚ) ^ e ≤
        ((rc : ℚ) * (10 : ℚ) ^ re + (1 + (10 : ℚ) ^ (-20 : Int)) * (10 : ℚ) ^ (Spec.spacingExpS (rc : ℚ) re)) ^ 2 :=
  Sqrt_anymode g m d c e h1 h2 h3 hv hm
theorem cbrt_any_mode (g : Globals) (m : Spec.Mode) (d : Gen.Decimal) (n : Bool) (c : Nat) (e : Int)
    (h1 : Gen.Decimal.isSpecial d = false) (h2 : Gen.Decimal.IsZero d = false)
    (hv : 𝔳[d] = .fin n c e)
    (hm : Spec.Mode.ofNat? g.DefaultRoundingMode.toNat = some m) :
    ∃ r rc re, Gen.Cbrt g d = .ok r ∧ 𝔳[r] = .fin n rc re ∧ rc ≠ 0 ∧ rc ≤ Spec.Cmax ∧
      ((rc : ℚ) * (10 : ℚ) ^ re - (1 + (10 : ℚ) ^ (-20 : Int)) * (10 : ℚ) ^ (Spec.spacingExpS (rc : ℚ) re) ≤ 0 ∨
        ((rc : ℚ) * (10 : ℚ) ^ re - (1 + (10 : ℚ) ^ (-20 : Int)) * (10 : ℚ) ^ (Spec.spacingExpS (rc : ℚ) re)) ^ 3
          ≤ (c : ℚ) * (10 : ℚ) ^ e) ∧
      (c : ℚ) * (10 : ℚ) ^ e ≤
        ((rc : ℚ) * (10 : ℚ) ^ re + (1 + (10 : ℚ) ^ (-20 : Int)) * (10 : ℚ) ^ (Spec.spacingExpS (rc : ℚ) re)) ^ 3 :=
  Cbrt_anymode g m d n c e h1 h2 hv hm

/-- **Perfect squares give exact roots** (nearest default mode), unconditional: `d = (c'·10^e')²` with
`c'·10^e'` a Decimal ⇒ `Sqrt(d)` has exactly the value `c'·10^e'`. -/
theorem sqrt_exact (g : Globals) (m : Spec.Mode) (d : Gen.Decimal) (c : Nat) (e : Int) (c' : Nat) (e' : Int)
    (h1 : Gen.Decimal.isSpecial d = false) (h2 : Gen.Decimal.IsZero d = false)
    (h3 : Gen.Decimal.Signbit d = false) (hv : 𝔳[d] = .fin false c e)
    (hm : Spec.Mode.ofNat? g.DefaultRoundingMode.toNat = some m)
    (hn : m = .nearestEven ∨ m = .nearestAway)
    (hc' : c' ≤ Spec.Cmax) (he0' : Spec.Emin ≤ e') (he1' : e' ≤ Spec.Emax)
    (hX : (c : ℚ) * (10 : ℚ) ^ e = ((c' : ℚ) * (10 : ℚ) ^ e') ^ 2) :
    ∃ r rc re, Gen.Sqrt g d = .ok r ∧ 𝔳[r] = .fin false rc re ∧
      (rc : ℚ) * (10 : ℚ) ^ re = (c' : ℚ) * (10 : ℚ) ^ e' :=
  Sqrt_exact g m d c e c' e' h1 h2 h3 hv hm (by rcases hn with h | h <;> rw [h] <;> rfl) hc' he0' he1' hX

/-- **Perfect cubes give exact roots** (nearest default mode), unconditional. -/
theorem cbrt_exact (g : Globals) (m : Spec.Mode) (d : Gen.Decimal) (n : Bool) (c : Nat) (e : Int)
    (c' : Nat) (e' : Int)
    (h1 : Gen.Decimal.isSpecial d = false) (h2 : Gen.Decimal.IsZero d = false)
    (hv : 𝔳[d] = .fin n c e)
    (hm : Spec.Mode.ofNat? g.DefaultRoundingMode.toNat = some m)
    (hn : m = .nearestEven ∨ m = .nearestAway)
    (hc' : c' ≤ Spec.Cmax) (he0' : Spec.Emin ≤ e') (he1' : e' ≤ Spec.Emax)
    (hX : (c : ℚ) * (10 : ℚ) ^ e = ((c' : ℚ) * (10 : ℚ) ^ e') ^ 3) :
    ∃ r rc re, Gen.Cbrt g d = .ok r ∧ 𝔳[r] = .fin n rc re ∧
      (rc : ℚ) * (10 : ℚ) ^ re = (c' : ℚ) * (10 : ℚ) ^ e' :=
  Cbrt_exact g m d n c e c' e' h1 h2 hv hm (by rcases hn with h | h <;> rw [h] <;> rfl) hc' he0' he1' hX

/-- `sqrt_correct` and `sqrt_exact` on `d = 4` (lo = 4, hi = 6176 << 49): no hypothesis is left -/
example (g : Globals) (hg : g.DefaultRoundingMode = 0) :=
  sqrt_exact g .nearestEven ⟨4, 3476778912330022912⟩ 4 0 2 0 (by decide) (by decide) (by decide)
    (by rw [Enc.interp_decompose _ (by decide)]
        have : Gen.Decimal.decompose ⟨4, 3476778912330022912⟩ = (⟨4, 0⟩, 6176) := by decide
        rw [this]; rfl)
    (by rw [hg]; rfl) (Or.inl rfl) (by unfold Spec.Cmax; norm_num) (by unfold Spec.Emin; norm_num)
    (by unfold Spec.Emax; norm_num) (by norm_num)

/-! ## 6. Findings as theorems about the finish stage -/

/-- FINDING.  On the last iterate of `Sqrt(4)` (sig = 2·10^57+1, exp = -57, flag 1) the finish stage with
`DefaultRoundingMode = ToPositiveInf` returns 2 + 1e-33 instead of 2. -/
theorem finding_sqrt4_toPosInf :
    ∃ r rc re, finishK 5 false ⟨10664523917613334529, 15563198590113658118, 5877471754111437539⟩
        (6176 - 57) 1 = .ok r ∧ 𝔳[r] = .fin false rc re ∧
      (rc : ℚ) * (10 : ℚ) ^ re = 2 + 1 / 10 ^ 33 := finish_sqrt4_toPosInf

/-- FINDING.  On the last iterate of `Cbrt(4096)` (sig = 16·10^56-2, exp = -56, flag 1) the finish stage
with `DefaultRoundingMode = ToZero` returns 16 - 1e-32 instead of 16. -/
theorem finding_cbrt4096_toZero :
    ∃ r rc re, finishK 2 false ⟨1152921504606846974, 16139907686832836818, 4701977403289150031⟩
        (6176 - 56) 1 = .ok r ∧ 𝔳[r] = .fin false rc re ∧
      (rc : ℚ) * (10 : ℚ) ^ re = 16 - 1 / 10 ^ 32 := finish_cbrt4096_toZero

/-! ## 6'. Findings (statements that are FALSE for the current code)

  The property text says "perfect squares and cubes give exact roots".  That holds for the two nearest
  modes (`sqrt_exact_of_core`, `cbrt_exact_of_core`) but `Sqrt`/`Cbrt` round with the package variable
  `DefaultRoundingMode`, and for the directed modes it is false, because the last iterate of a perfect
  square is in general NOT the exact root (it is a few units of 1e-57 off) and/or carries a sticky flag:

  * `Sqrt(4)`  with `DefaultRoundingMode = ToPositiveInf` (5) or `AwayFromZero` (3):
      actual   2.000000000000000000000000000000001   (coefficient 2000000000000000000000000000000001, exp -33)
      expected 2
    (last iterate: sig = 2·10^57 + 1, exp = -57, flag = 1).  The same for every perfect square tried
    (1 … 299², 12345678901234568²·10^-6 …): e.g. `Sqrt(1)` = 1.0000000000000000000000000000000001
    (a 35-digit coefficient 10^34+1).
  * `Cbrt(4096)` with `DefaultRoundingMode = ToZero` (2) or `ToNegativeInf` (4):
      actual   15.99999999999999999999999999999999   (coefficient 1599999999999999999999999999999999, exp -32)
      expected 16
    (last iterate: sig = 16·10^56 − 2, exp = -56, flag = 1; the flags of `quo`/`add` inside the Halley
    step are discarded by the code, so the flag does not even say on which side the truth lies).
    Also 19³, 38³, 47³, 57³, 75³, 79³, 146³ … (19 of the first 299 cubes).
  * `Cbrt(8)` with `ToPositiveInf`/`AwayFromZero`: 2.000000000000000000000000000000001; `Cbrt(-8)` with
    `ToNegativeInf`: -2.000000000000000000000000000000001 (277 of the first 299 cubes).
  Under these modes the result is still within one spacing of the root (`final_step_any_mode`).

  Reproduce (not part of the build; `mk c e := Gen.compose false ⟨c % 2^64, c / 2^64⟩ (e + 6176)`):
    #eval Gen.Sqrt ⟨5⟩ (mk 4 0)      -- interp: fin false 2000000000000000000000000000000001 (-33)
    #eval Gen.Cbrt ⟨2⟩ (mk 4096 0)   -- interp: fin false 1599999999999999999999999999999999 (-32)
    #eval Root.sqrtCore (mk 4 0)     -- sig=2000000000000000000000000000000000000000000000000000000001 exp=-57 trunc=1 dExp=0
    #eval Root.cbrtCore (mk 4096 0)  -- sig=1599999999999999999999999999999999999999999999999999999998 exp=-56 trunc=1
-/
end Props.C17
