/-
  Property C05, entry points: `Parse`, `MustParse` and `UnmarshalText` are thin wrappers around `parse`
  (whose behaviour on every byte string is `Props.C05.parse_spec`).  These theorems pin the wrappers themselves:
  which operation code the NaN payload gets, that `Parse` hands back value and error unchanged (±Inf with the range
  error), that `MustParse` panics exactly on an error, that `UnmarshalText` stores the value exactly when there is no
  error and otherwise leaves the receiver as it was.
-/
import D128.Props.C05Value
import D128.Gen.ScanText
set_option autoImplicit false

namespace Props.C05

theorem Parse_eq (g : Globals) (s : Go.Bytes) : Gen.Parse g s = Gen.parse g s 6 := by
  unfold Gen.Parse
  cases h : Gen.parse g s 6 <;> rfl

theorem MustParse_eq (g : Globals) (s : Go.Bytes) :
    Gen.MustParse g s =
      match Gen.parse g s 4 with
      | .ok (v, e) => if e != Go.Err.nil then .error (Go.Panic.explicit "panic") else .ok v
      | .error p => .error p := by
  unfold Gen.MustParse
  cases h : Gen.parse g s 4 with
  | error p => rfl
  | ok r =>
    obtain ⟨v, e⟩ := r
    by_cases he : (e != Go.Err.nil) = true <;> simp [he, bind, Except.bind, pure, Except.pure, throw, throwThe, MonadExceptOf.throw]

theorem UnmarshalText_eq (g : Globals) (d : Gen.Decimal) (data : Go.Bytes) :
    Gen.Decimal.UnmarshalText g d data =
      match Gen.parse g data 8 with
      | .ok (v, e) => if e != Go.Err.nil then .ok (d, e) else .ok (v, Go.Err.nil)
      | .error p => .error p := by
  unfold Gen.Decimal.UnmarshalText
  cases h : Gen.parse g data 8 with
  | error p => rfl
  | ok r =>
    obtain ⟨v, e⟩ := r
    by_cases he : (e != Go.Err.nil) = true <;> simp [he, bind, Except.bind, pure, Except.pure]

/-- `MustParse` panics exactly when `Parse` reports an error, and returns `Parse`'s value otherwise
    (up to the operation code recorded in a NaN's payload, which `parse_spec` states for every code). -/
theorem MustParse_panics_iff (g : Globals) (s : Go.Bytes) (v : Gen.Decimal) (e : Go.Err)
    (h : Gen.parse g s 4 = .ok (v, e)) :
    (Gen.MustParse g s = .error (Go.Panic.explicit "panic") ↔ e ≠ Go.Err.nil) ∧
    (e = Go.Err.nil → Gen.MustParse g s = .ok v) := by
  rw [MustParse_eq, h]
  by_cases he : e = Go.Err.nil
  · subst he; simp
  · have : (e != Go.Err.nil) = true := by simpa using he
    simp [this, he]

/-- On an error `UnmarshalText` leaves the receiver unchanged; without one it stores what `parse` returned. -/
theorem UnmarshalText_receiver (g : Globals) (d v : Gen.Decimal) (data : Go.Bytes) (e : Go.Err)
    (h : Gen.parse g data 8 = .ok (v, e)) :
    Gen.Decimal.UnmarshalText g d data = .ok (if e = Go.Err.nil then v else d, e) := by
  rw [UnmarshalText_eq, h]
  by_cases he : e = Go.Err.nil
  · subst he; simp
  · have : (e != Go.Err.nil) = true := by simpa using he
    simp [this, he]

end Props.C05
