/-
  Property C11 (part: `Frexp`), for ALL 2^128 bit patterns.

  Statements only; proofs assemble lemmas of `D128/Proofs/CanonFrexp.lean` (which uses the
  `U128.log10` specification of `D128/Proofs/Words128Log.lean`).  Every theorem is about the
  generated `Gen.Frexp` (translation of /repo/decimal.go) against `Spec.frexp`
  (D128/Spec/Arith.lean) over `Spec.interp d.lo d.hi`.

  * `frexp_spec`        no panic; the fraction denotes exactly `(Spec.frexp 𝔳[d]).1` (`Val.same`),
                        the exponent is `(Spec.frexp 𝔳[d]).2`
  * `frexp_spec_struct` the same with structural equality of the denoted values (sign, coefficient
                        and exponent, NaN payload)
  * `frexp_unchanged`   zeros, NaN and Inf are returned unchanged (bit for bit) with e = 0
  * `frexp_range`       finite non-zero d: 1/10 ≤ |frac| < 1
  * `frexp_exact`       finite d: frac × 10^e = d exactly (ℚ), and the sign is kept
  * `frexp_coefficient` finite non-zero d: the fraction has the same coefficient as d (no digit is
                        lost) and exponent −(number of digits)

  (`New` and `Ldexp` of C11 go through the rounding kernel and are not covered here.)
-/
import D128.Proofs.CanonFrexp
set_option autoImplicit false

namespace Props.C11
open FrexpPf CanonPf IntConvPf

/-- the value a bit pattern denotes -/
local notation "𝔳[" d "]" => Spec.interp (Gen.Decimal.lo d) (Gen.Decimal.hi d)

theorem same_refl (v : Spec.Val) : Spec.Val.same v v = true := by
  cases v <;> simp [Spec.Val.same]

/-- `Frexp` never panics; fraction and exponent are the specified ones, the fraction even as the
    same (sign, coefficient, exponent) triple. -/
theorem frexp_spec_struct (d : Gen.Decimal) :
    ∃ f e, Gen.Frexp d = .ok (f, e) ∧ 𝔳[f] = (Spec.frexp 𝔳[d]).1 ∧
      e.toInt = (Spec.frexp 𝔳[d]).2 :=
  Frexp_spec d

theorem frexp_spec (d : Gen.Decimal) :
    ∃ f e, Gen.Frexp d = .ok (f, e) ∧ Spec.Val.same 𝔳[f] (Spec.frexp 𝔳[d]).1 = true ∧
      e.toInt = (Spec.frexp 𝔳[d]).2 := by
  obtain ⟨f, e, h, hv, he⟩ := Frexp_spec d
  exact ⟨f, e, h, by rw [hv]; exact same_refl _, he⟩

/-- Zeros, NaN and Inf are returned unchanged, with exponent 0. -/
theorem frexp_unchanged (d : Gen.Decimal)
    (h : Gen.Decimal.isSpecial d = true ∨ Gen.Decimal.IsZero d = true) :
    Gen.Frexp d = .ok (d, 0) :=
  Frexp_trivial d (by rcases h with h | h <;> rw [h] <;> simp)

/-- Finite non-zero d: the fraction keeps sign and coefficient; its exponent is minus the number
    of decimal digits of the coefficient; the returned exponent is `e + digits`. -/
theorem frexp_coefficient (d f : Gen.Decimal) (e : Int64) (h : Gen.Frexp d = .ok (f, e))
    (hs : Gen.Decimal.isSpecial d = false) (hz : Gen.Decimal.IsZero d = false) :
    ∃ (c : Nat) (x : Int), c ≠ 0 ∧ 𝔳[d] = .fin (Gen.Decimal.Signbit d) c x ∧
      𝔳[f] = .fin (Gen.Decimal.Signbit d) c (-(Nat.log 10 c : Int) - 1) ∧
      e.toInt = x + (Nat.log 10 c : Int) + 1 := by
  obtain ⟨f', e', h', hv, he⟩ := Frexp_spec d
  rw [h] at h'
  injection h' with h'
  injection h' with hf' he'
  subst hf'; subst he'
  have hz' : (𝔳[d]).isZero = false := by rw [Enc.interp_isZero]; exact hz
  rw [Enc.interp_decompose d hs] at hz' hv he ⊢
  rw [Enc.isZero_fin] at hz'
  simp only [decide_eq_false_iff_not] at hz'
  rw [spec_frexp_fin _ _ _ hz'] at hv he
  exact ⟨_, _, hz', rfl, hv, he⟩

/-- Finite non-zero d: `1/10 ≤ |frac| < 1`. -/
theorem frexp_range (d f : Gen.Decimal) (e : Int64) (h : Gen.Frexp d = .ok (f, e))
    (hs : Gen.Decimal.isSpecial d = false) (hz : Gen.Decimal.IsZero d = false) :
    (1 / 10 : ℚ) ≤ (𝔳[f]).abs ∧ (𝔳[f]).abs < 1 := by
  obtain ⟨c, x, hc, _, hf, _⟩ := frexp_coefficient d f e h hs hz
  rw [hf]
  exact frexp_mag_bounds c hc

/-- Finite d (zeros included): `frac × 10^e = d` exactly, with the same sign bit. -/
theorem frexp_exact (d f : Gen.Decimal) (e : Int64) (h : Gen.Frexp d = .ok (f, e))
    (hs : Gen.Decimal.isSpecial d = false) :
    (𝔳[f]).toRat * Spec.pow10 e.toInt = (𝔳[d]).toRat ∧ (𝔳[f]).neg = (𝔳[d]).neg := by
  by_cases hz : Gen.Decimal.IsZero d = false
  · obtain ⟨c, x, hc, hd, hf, he⟩ := frexp_coefficient d f e h hs hz
    rw [hd, hf, he]
    have key := frexp_mag_scale c x (x + (Nat.log 10 c : Int) + 1)
    have e1 : x - (x + (Nat.log 10 c : Int) + 1) = -(Nat.log 10 c : Int) - 1 := by omega
    rw [e1] at key
    refine ⟨?_, rfl⟩
    simp only [Spec.Val.toRat]
    split_ifs
    · rw [neg_mul, key]
    · exact key
  · simp only [Bool.not_eq_false] at hz
    rw [Frexp_trivial d (by rw [hz]; simp)] at h
    injection h with h
    injection h with hf he
    subst hf; subst he
    refine ⟨?_, rfl⟩
    have : Spec.pow10 (0 : Int64).toInt = 1 := by
      have : (0 : Int64).toInt = 0 := by decide
      rw [this]; simp [Spec.pow10]
    rw [this, mul_one]

end Props.C11
