/-
  Property C12: MarshalBinary / UnmarshalBinary are the IEEE 754-2008 BID interchange encoding,
  for all 2^128 bit patterns.

  Theorems (all about the generated Gen.Decimal.MarshalBinary / Gen.Decimal.UnmarshalBinary):
    marshal_ok               MarshalBinary never panics, returns a nil error
    marshal_len              the result has 16 bytes
    marshal_is_bid           Spec.bidDecode (bytes) = some (Spec.interp d.lo d.hi)
    unmarshal_marshal        UnmarshalBinary (MarshalBinary d) = d, bit for bit, nil error
    unmarshal_total          UnmarshalBinary never panics (any receiver, any byte slice)
    unmarshal_accepts_iff    error = nil ↔ len = 16; receiver unchanged on error
    unmarshal_is_bid         accepted bytes denote, under the IEEE reading, the value of the result
    marshal_unmarshal        MarshalBinary (UnmarshalBinary data) = data for 16-byte data
    marshal_injective        MarshalBinary d = MarshalBinary d' → d = d'
    canonical_when_34_digits coefficients < 10^34 never use the steering ("11") form
    compose_canonical_when_34_digits   the same for compose
    compose_steering_iff     compose uses the steering form iff the coefficient is ≥ 2^113
    marshal_prefix           byte 0: sign bit, 0x7C prefix iff NaN, 0x78 prefix iff Inf

  Modelling note: `Go.len` is `Int64.ofNat data.size`; Go slices have length < 2^63, so the
  statements about rejected input carry the hypothesis `data.size < 2^64` (a Lean array of size
  2^64+16 would have `Go.len = 16`).  `unmarshal_total` needs no such hypothesis.
-/
import D128.Proofs.Encoding

namespace Props.C12
open Enc

/-- MarshalBinary cannot panic and cannot fail. -/
theorem marshal_ok (d : Gen.Decimal) :
    ∃ b, Gen.Decimal.MarshalBinary d = .ok (b, Go.Err.nil) :=
  ⟨bytesOf d, marshal_eq d⟩

/-- The marshalled form always has 16 bytes (and the error is nil). -/
theorem marshal_len (d : Gen.Decimal) :
    ∃ b, Gen.Decimal.MarshalBinary d = .ok (b, Go.Err.nil) ∧ b.size = 16 :=
  ⟨bytesOf d, marshal_eq d, bytesOf_size d⟩

/-- The library's bytes decode, under the IEEE 754-2008 BID reading of the 128-bit string, to the
    same class / sign / coefficient / exponent (and NaN payload) as the library's own reading. -/
theorem marshal_is_bid (d : Gen.Decimal) :
    ∃ b, Gen.Decimal.MarshalBinary d = .ok (b, Go.Err.nil) ∧
      Spec.bidDecode b = some (Spec.interp d.lo d.hi) :=
  ⟨bytesOf d, marshal_eq d, bidDecode_bytesOf d⟩

/-- Unmarshalling the marshalled bytes gives back `d` bit for bit, whatever the receiver was. -/
theorem unmarshal_marshal (d0 d : Gen.Decimal) (b : Go.Bytes) (e : Go.Err)
    (h : Gen.Decimal.MarshalBinary d = .ok (b, e)) :
    Gen.Decimal.UnmarshalBinary d0 b = .ok (d, Go.Err.nil) := by
  rw [marshal_eq] at h
  have hb : bytesOf d = b := (Prod.mk.inj (Except.ok.inj h)).1
  subst hb
  exact unmarshal_bytesOf d0 d

/-- UnmarshalBinary never panics: it returns normally for every receiver and every byte slice. -/
theorem unmarshal_total (d0 : Gen.Decimal) (data : Go.Bytes) :
    ∃ d1 e, Gen.Decimal.UnmarshalBinary d0 data = .ok (d1, e) :=
  unmarshal_no_panic d0 data

/-- UnmarshalBinary succeeds exactly on 16-byte input, and leaves the receiver alone on error. -/
theorem unmarshal_accepts_iff (d0 : Gen.Decimal) (data : Go.Bytes) (hlt : data.size < 2^64) :
    ∃ d1 e, Gen.Decimal.UnmarshalBinary d0 data = .ok (d1, e) ∧
      (e = Go.Err.nil ↔ data.size = 16) ∧ (e ≠ Go.Err.nil → d1 = d0) := by
  by_cases h : data.size = 16
  · refine ⟨_, _, unmarshal_eq d0 data h, ?_, ?_⟩
    · simp [h]
    · intro hne; exact absurd rfl hne
  · refine ⟨_, _, unmarshal_bad d0 data h hlt, ?_, ?_⟩
    · simp [h]
    · intro _; rfl

/-- Every accepted byte string denotes, under the IEEE reading, exactly the value the library reads
    from the resulting Decimal. -/
theorem unmarshal_is_bid (d0 d1 : Gen.Decimal) (data : Go.Bytes)
    (h : Gen.Decimal.UnmarshalBinary d0 data = .ok (d1, Go.Err.nil)) (hlt : data.size < 2^64) :
    Spec.bidDecode data = some (Spec.interp d1.lo d1.hi) := by
  by_cases hsz : data.size = 16
  · exact bidDecode_of_unmarshal d0 d1 data hsz h
  · rw [unmarshal_bad d0 data hsz hlt] at h
    have he : Go.Err.errorsNew = Go.Err.nil := (Prod.mk.inj (Except.ok.inj h)).2
    exact absurd he (by decide)

/-- Marshalling what was unmarshalled gives the input bytes back. -/
theorem marshal_unmarshal (d0 d1 : Gen.Decimal) (data : Go.Bytes) (hsz : data.size = 16)
    (h : Gen.Decimal.UnmarshalBinary d0 data = .ok (d1, Go.Err.nil)) :
    Gen.Decimal.MarshalBinary d1 = .ok (data, Go.Err.nil) := by
  rw [marshal_eq, bytesOf_of_unmarshal d0 d1 data hsz h]

/-- The encoding is injective. -/
theorem marshal_injective (d d' : Gen.Decimal)
    (h : Gen.Decimal.MarshalBinary d = Gen.Decimal.MarshalBinary d') : d = d' := by
  have h1 := unmarshal_marshal d d (bytesOf d) Go.Err.nil (marshal_eq d)
  have h2 := unmarshal_marshal d d' (bytesOf d) Go.Err.nil (by rw [← h]; exact marshal_eq d)
  rw [h1] at h2
  exact (Prod.mk.inj (Except.ok.inj h2)).1

/-- When the coefficient has at most 34 digits the steering form ("11" in G0G1) is not used, i.e.
    the finite encoding is the one IEEE 754-2008 calls canonical (10^34 < 2^113). -/
theorem canonical_when_34_digits (d : Gen.Decimal)
    (hc : Spec.ieeeCanonical (Gen.Decimal.decompose d).1.toNat = true) :
    d.hi.toNat / 2^61 % 4 ≠ 3 :=
  not_steering_of_canonical d hc

/-- `compose` of a coefficient with at most 34 digits does not use the steering form. -/
theorem compose_canonical_when_34_digits (neg : Bool) (sig : U128) (exp : Int16)
    (hc : Spec.ieeeCanonical sig.toNat = true) (h0 : 0 ≤ exp.toInt) (h1 : exp.toInt ≤ 12287) :
    (Gen.compose neg sig exp).hi.toNat / 2^61 % 4 ≠ 3 :=
  compose_not_steering neg sig exp hc h0 h1

/-- `compose` selects the 2-bit-steering form exactly when the coefficient needs bit 113. -/
theorem compose_steering_iff (neg : Bool) (sig : U128) (exp : Int16)
    (hs : sig.toNat ≤ Spec.Cmax) (h0 : 0 ≤ exp.toInt) (h1 : exp.toInt ≤ 12287) :
    (Gen.compose neg sig exp).hi.toNat / 2^61 % 4 = 3 ↔ 2^113 ≤ sig.toNat :=
  Enc.compose_steering_iff neg sig exp hs h0 h1

/-- The first byte carries the sign in bit 7 and the 0x7C / 0x78 prefixes (bits 6..2 = 11111 /
    11110) exactly for NaN / Inf. -/
theorem marshal_prefix (d : Gen.Decimal) (b : Go.Bytes) (e : Go.Err)
    (h : Gen.Decimal.MarshalBinary d = .ok (b, e)) :
    Gen.Decimal.Signbit d = decide (b[0]!.toNat / 128 = 1) ∧
    Gen.Decimal.IsNaN d = decide (b[0]!.toNat / 4 % 32 = 31) ∧
    Gen.Decimal.isInf d = decide (b[0]!.toNat / 4 % 32 = 30) := by
  rw [marshal_eq] at h
  have hb : bytesOf d = b := (Prod.mk.inj (Except.ok.inj h)).1
  subst hb
  exact bytesOf_prefix d

end Props.C12
