/-
  Property C13 — JSON encoding emits valid JSON numbers that decode to the same value.

  `Gen.Decimal.MarshalJSON`, `Gen.Decimal.UnmarshalJSON` (generated from /repo/json.go into
  `D128/Gen/JsonText.lean`), for ALL 2^128 bit patterns and all byte strings.  Statements only; the proofs
  are in `D128/Proofs/Emit*.lean`.  Vocabulary as in `D128/Props/C06b.lean`; `Emit.shortest lo hi k` is
  `Spec.shortestG` with the switch-over points and the minimal number of exponent digits as parameters
  (`Spec.shortestG = Emit.shortest (-4) 6 2`); `Spec.readJsonNumber` is the RFC 8259 number grammar.

  * `marshalJSON_spec`   : finite `d`: the bytes are `Emit.shortest (-6) 20 1` of `d`'s digits: positional for
        leading-digit exponents −6 … 19, exponent form `d[.ddd]e±X` (as many exponent digits as needed) otherwise
  * `json_shape`         : that text spelled out (no superfluous digit)
  * `marshalJSON_valid`  : the bytes are accepted by `Spec.readJsonNumber` (no leading `+`, no leading zeros,
        no bare `.`, well-formed exponent) and denote `d` exactly with `d`'s sign
  * `marshalJSON_nan`, `marshalJSON_inf` : `*json.UnsupportedValueError`; `marshalJSON_total`
  * `unmarshalJSON_null`, `unmarshalJSON_empty` : the receiver is left alone
  * `unmarshalJSON_eq`   : normal form for every input: `parseNumber` (separators off) after an optional sign,
        errors translated (`Emit.jsonResult`)
  * `unmarshalJSON_number` : on every JSON number it is `parseNumber` on the digits, the same function
        `Parse` ends in
  * `unmarshalJSON_total`, `unmarshalJSON_reject` : never a panic; non-numbers give `*json.UnmarshalTypeError`
        and leave the receiver
  * `json_roundtrip`     : `UnmarshalJSON (MarshalJSON d)` has the sign and the value of `d` (`Val.same`), error
        `nil`, for every valid `DefaultRoundingMode` — unconditional (`Props.C05.parseNumber_value` instantiated)
  * `json_roundtrip_equal` : the same with `Spec.equal` and equal sign bit (also −0, zeros with any exponent)
-/
import D128.Proofs.EmitRound
import D128.Proofs.EmitRoundFinal
import D128.Proofs.EmitJsonNum
import D128.Proofs.EmitJsonTotal
set_option autoImplicit false

namespace Props.C13
open Emit

/-- the value a bit pattern denotes -/
local notation "𝔳[" d "]" => Spec.interp (Gen.Decimal.lo d) (Gen.Decimal.hi d)

/-! ## MarshalJSON -/

/-- **MarshalJSON of a finite Decimal.** -/
theorem marshalJSON_spec (d : Gen.Decimal) (neg : Bool) (c : Nat) (e : Int) (hfin : 𝔳[d] = .fin neg c e) :
    ∃ out, Gen.Decimal.MarshalJSON d = .ok (out, Go.Err.nil) ∧
      chars out = shortest (-6) 20 1 neg (Spec.sliceOf c e) 'e' ∧ out.size ≤ 12500 :=
  Emit.marshalJSON_fin d neg c e hfin

/-- the JSON text spelled out (sign apart), for the digit list `M` with `dp` digits before the point -/
theorem json_shape (M : List Nat) (dp : Int) (hne : M ≠ []) :
    shortest (-6) 20 1 false ⟨M, dp⟩ 'e' =
      if dp - 1 < -6 ∨ dp - 1 ≥ 20 then
        Spec.digitsStr (M.take 1) ++ (if M.length = 1 then [] else '.' :: Spec.digitsStr (M.drop 1)) ++
          Spec.expStr 'e' (dp - 1) 1
      else if (M.length : Int) ≤ dp then Spec.digitsStr (M ++ List.replicate (dp.toNat - M.length) 0)
      else if 0 < dp then Spec.digitsStr (M.take dp.toNat) ++ '.' :: Spec.digitsStr (M.drop dp.toNat)
      else '0' :: '.' :: Spec.digitsStr (List.replicate (-dp).toNat 0 ++ M) :=
  Emit.shortest_shape (-6) 20 1 M dp hne 'e'

/-- **The emitted token is a valid JSON number denoting `d` exactly, with `d`'s sign.** -/
theorem marshalJSON_valid (d : Gen.Decimal) (neg : Bool) (c : Nat) (e : Int) (hfin : 𝔳[d] = .fin neg c e) :
    ∃ out n sc nd, Gen.Decimal.MarshalJSON d = .ok (out, Go.Err.nil) ∧
      Spec.readJsonNumber (chars out) = some (neg, n, sc, nd) ∧
      (n : ℚ) * (10 : ℚ) ^ sc = (c : ℚ) * (10 : ℚ) ^ e ∧ Spec.mag n sc = Spec.mag c e := by
  obtain ⟨out, ho, hco, _⟩ := marshalJSON_spec d neg c e hfin
  obtain ⟨n, sc, nd, hr, hv⟩ := Emit.shortest_readJson (-6) 20 1 neg c e 'e' (Or.inl rfl)
  refine ⟨out, n, sc, nd, ho, by rw [hco]; exact hr, hv, ?_⟩
  rw [Emit.mag_eq_zpow, Emit.mag_eq_zpow, hv]

theorem marshalJSON_nan (d : Gen.Decimal) (n : Bool) (p : UInt64) (h : 𝔳[d] = .nan n p) :
    Gen.Decimal.MarshalJSON d = .ok (#[], Go.Err.jsonUnsupportedValue) := Emit.marshalJSON_nan d n p h

theorem marshalJSON_inf (d : Gen.Decimal) (n : Bool) (h : 𝔳[d] = .inf n) :
    Gen.Decimal.MarshalJSON d = .ok (#[], Go.Err.jsonUnsupportedValue) := Emit.marshalJSON_inf d n h

/-- no bit pattern makes `MarshalJSON` panic or loop -/
theorem marshalJSON_total (d : Gen.Decimal) : ∃ r, Gen.Decimal.MarshalJSON d = .ok r := by
  cases h : 𝔳[d] with
  | nan n p => exact ⟨_, marshalJSON_nan d n p h⟩
  | inf n => exact ⟨_, marshalJSON_inf d n h⟩
  | fin n c e => obtain ⟨out, ho, _⟩ := marshalJSON_spec d n c e h; exact ⟨_, ho⟩

/-- −5·10^20 (exponent form in JSON), 1.234…e-07 with 34 digits, 1.5·10^-8 -/
def ex1 : Gen.Decimal := ⟨5, 12711409948253224960⟩
def ex2 : Gen.Decimal := ⟨16033479673939144690, 3454327840252598066⟩
theorem ex1_val : 𝔳[ex1] = .fin true 5 20 := by decide
theorem ex2_val : 𝔳[ex2] = .fin false 1234567890123456789012345678901234 (-40) := by decide

example := marshalJSON_valid ex1 true 5 20 ex1_val
example := marshalJSON_valid ex2 false 1234567890123456789012345678901234 (-40) ex2_val
example : shortest (-6) 20 1 true (Spec.sliceOf 5 20) 'e' = "-5e+20".toList := by decide
example : shortest (-6) 20 1 false (Spec.sliceOf 15 (-8)) 'e' = "1.5e-7".toList := by decide
example : shortest (-6) 20 1 false (Spec.sliceOf 15 (-7)) 'e' = "0.0000015".toList := by decide
example : shortest (-6) 20 1 false (Spec.sliceOf 123 17) 'e' = "12300000000000000000".toList := by decide
example := marshalJSON_nan ⟨0, 8935141660703064064⟩ false 0 (by decide)

/-! ## UnmarshalJSON -/

/-- `null` leaves the receiver untouched -/
theorem unmarshalJSON_null (g : Globals) (d : Gen.Decimal) :
    Gen.Decimal.UnmarshalJSON g d (Go.str "null") = .ok (d, Go.Err.nil) := by
  rw [Emit.unmarshalJSON_eq g d _ (by decide), if_pos rfl]

/-- so does the empty input -/
theorem unmarshalJSON_empty (g : Globals) (d : Gen.Decimal) :
    Gen.Decimal.UnmarshalJSON g d #[] = .ok (d, Go.Err.nil) := by
  rw [Emit.unmarshalJSON_eq g d _ (by decide), if_neg (by decide), dif_pos (show (#[] : Go.Bytes).size = 0 from rfl)]

/-- **Normal form** for every input: after an optional `+` / `-` the digits go to `parseNumber` with
separators off; `nil` keeps the parsed value, a range or syntax error becomes `*json.UnmarshalTypeError`
and the receiver is kept. -/
theorem unmarshalJSON_eq (g : Globals) (d : Gen.Decimal) (data : Go.Bytes) (hsz : data.size < 2 ^ 63) :
    Gen.Decimal.UnmarshalJSON g d data =
      if data = Go.str "null" then .ok (d, Go.Err.nil)
      else if h : data.size = 0 then .ok (d, Go.Err.nil)
      else
        Gen.parseNumber g (data.extract (jsonStart (data[0]'(by omega))).2 data.size)
          (jsonStart (data[0]'(by omega))).1 false >>= fun r => pure (jsonResult d r) :=
  Emit.unmarshalJSON_eq g d data hsz

/-- **On a JSON number `UnmarshalJSON` is `parseNumber`** — the function `Parse` ends in — on the digits
after the optional minus sign, separators off. -/
theorem unmarshalJSON_number (g : Globals) (d : Gen.Decimal) (data : Go.Bytes) (hsz : data.size < 2 ^ 63)
    (neg : Bool) (n : Nat) (sc : Int) (nd : Nat)
    (h : Spec.readJsonNumber (chars data) = some (neg, n, sc, nd)) :
    Gen.Decimal.UnmarshalJSON g d data =
      Gen.parseNumber g (data.extract (if neg then 1 else 0) data.size) neg false >>= fun r =>
        pure (jsonResult d r) :=
  Emit.unmarshalJSON_of_json g d data hsz neg n sc nd h

example (g : Globals) (d : Gen.Decimal) :=
  unmarshalJSON_number g d (Go.str "-12.5e+3") (by decide) true 125 2 3 (by decide)

/-- **Never a panic**: every input, every receiver; the error is `nil` or `*json.UnmarshalTypeError`, and in
the latter case the receiver is returned unchanged. -/
theorem unmarshalJSON_total (g : Globals) (d : Gen.Decimal) (data : Go.Bytes) (hsz : data.size < 2 ^ 63) :
    ∃ v e, Gen.Decimal.UnmarshalJSON g d data = .ok (v, e) ∧
      (e = Go.Err.nil ∨ (e = Go.Err.jsonUnmarshalType ∧ v = d)) :=
  Emit.unmarshalJSON_total g d data hsz

/-- **Non-numbers are rejected**: not `null`, not empty, and after the optional sign not a numeral. -/
theorem unmarshalJSON_reject (g : Globals) (d : Gen.Decimal) (data : Go.Bytes) (hsz : data.size < 2 ^ 63)
    (hn : data ≠ Go.str "null") (h0 : data.size ≠ 0)
    (hbad : Spec.readNumber false
      (chars (data.extract (jsonStart (data[0]'(by omega))).2 data.size)) = none) :
    Gen.Decimal.UnmarshalJSON g d data = .ok (d, Go.Err.jsonUnmarshalType) :=
  Emit.unmarshalJSON_reject g d data hsz hn h0 hbad

example (g : Globals) (d : Gen.Decimal) :=
  unmarshalJSON_reject g d (Go.str "\"1.5\"") (by decide) (by decide) (by decide) (by decide)
example (g : Globals) (d : Gen.Decimal) :=
  unmarshalJSON_reject g d (Go.str "[1]") (by decide) (by decide) (by decide) (by decide)

/-! ## round trip -/

/-- **JSON is a lossless interchange form.**  `UnmarshalJSON` (any receiver `d0`) of the bytes of
`MarshalJSON d` returns, without error, a Decimal with the sign and the value of `d`. -/
theorem json_roundtrip (g : Globals) (m : Spec.Mode)
    (hm : Spec.Mode.ofNat? g.DefaultRoundingMode.toNat = some m) (d d0 : Gen.Decimal) (neg : Bool)
    (c : Nat) (e : Int) (hfin : 𝔳[d] = .fin neg c e) :
    ∃ out v, Gen.Decimal.MarshalJSON d = .ok (out, Go.Err.nil) ∧
      Gen.Decimal.UnmarshalJSON g d0 out = .ok (v, Go.Err.nil) ∧ (𝔳[v]).same (𝔳[d]) = true :=
  Emit.json_rt g m hm d d0 neg c e hfin

/-- the same with `Spec.equal` and the sign bit (also −0 and zeros with any exponent) -/
theorem json_roundtrip_equal (g : Globals) (m : Spec.Mode)
    (hm : Spec.Mode.ofNat? g.DefaultRoundingMode.toNat = some m) (d d0 : Gen.Decimal) (neg : Bool)
    (c : Nat) (e : Int) (hfin : 𝔳[d] = .fin neg c e) :
    ∃ out v, Gen.Decimal.MarshalJSON d = .ok (out, Go.Err.nil) ∧
      Gen.Decimal.UnmarshalJSON g d0 out = .ok (v, Go.Err.nil) ∧
      Spec.equal (𝔳[v]) (𝔳[d]) = true ∧ (𝔳[v]).neg = (𝔳[d]).neg ∧ (𝔳[v]).isFin = true :=
  Emit.json_equal g m hm d d0 neg c e hfin

example := json_roundtrip_equal ⟨2⟩ .toZero rfl ex1 default true 5 20 ex1_val
example := json_roundtrip_equal ⟨5⟩ .toPosInf rfl ⟨0, 12711409948253224960⟩ ex2 true 0 20 (by decide)

end Props.C13
