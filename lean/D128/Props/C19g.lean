/-
  Property C19, first clause — "replacing any operand by another encoding of the same value (a different cohort
  member, e.g. 1.0 vs 1.00e0, or a zero with another exponent) never changes the numeric value, sign or class of the
  result of any … conversion, formatting …" — for the exported functions that no other C19 module reaches:
  `Decimal.Int` (big.Int), `Decimal.Rat` (big.Rat), `Decimal.Float` (big.Float), `Decimal.String`,
  `Decimal.MarshalText`, `Decimal.MarshalJSON`, `Format`, `Append`, `Decimal.Append`, `Decimal.Format`
  (fmt.Formatter), `Decimal.Decompose`.  For ALL 2^128 × 2^128 bit pattern pairs.

  Vocabulary as in `D128/Props/C19b.lean`: 𝔳[d] = `Spec.interp d.lo d.hi`; `d ~ d'` is `(𝔳[d]).same 𝔳[d']`
  (same class, sign — also on zero — and numeric value; NaNs: same sign and payload word); the `…_num` forms take
  `sameNum` (any two NaNs identified).  All theorems are corollaries of the exact specification theorems of
  C10b / C09b / C06b / C13 / C07b / C07c / C14 and of "the specification depends on the value only"
  (`CanonPf.truncInt_congr`, `Cohort.sliceOf_congr`, `D128/Proofs/CohortText.lean`).  Every conclusion is an equation
  between the two outcomes in `Go.GoM` (so: same result, or the same panic / unmodelled arm in both) unless noted.

  1. big.Int    `bigInt_encoding_independent(_num)`   `d.Int(i0) = d'.Int(i0')`: the same integer, or the same
                documented panic (NaN: "Decimal(NaN).Int()", ±Inf: the message names the sign) — any destinations
  2. big.Rat    `bigRat_encoding_independent(_num)`   the same rational (in lowest terms) or the same panic;
                `toRat_congr` : `Spec.Val.toRat` respects `sameNum`
  3. big.Float  `bigFloat_encoding_independent(_num)` the same `big.Float` (precision, mode, form, sign, magnitude —
                the value rounded ONCE) for every receiver (nil, any precision incl. 0, any mode byte, any prior
                value; `RecvOK`: `prec < 2^64`), or the documented panic in both.  COMPLETE (unlike `Float64`).
  4. text without precision — the texts are IDENTICAL, not merely equal in value: the library prints the shortest
                form (digits of the coefficient WITHOUT trailing zeros), so `1.0`, `1.00`, `1` all print `1`:
                `string_encoding_independent(_num)`, `marshalText_…`, `marshalJSON_…` (error value included),
                `string_denotes_encoding_independent`, `marshalJSON_denotes_encoding_independent` : the common text,
                read by the grammar of the specification / RFC 8259, is `±n·10^sc` with the common sign and
                `n·10^sc = c·10^e = c'·10^e'`;  `Append` / `Format` with `prec < 0` and `%v`: under 5.
  5. text with ANY precision, verb, flags, width:
                `append_encoding_independent(_num)`          `Append(buf, d, fmt, prec)`, every verb byte, `prec < 2^56`
                `format_fn_encoding_independent(_num)`      `Format(d, fmt, prec)`
                `decimal_append_encoding_independent(_num)`  `d.Append(buf, spec)`, EVERY spec byte string
                `decimal_format_encoding_independent(_num)`, `…_fmt`   `d.Format(state, verb)` (fmt.Formatter), every
                                                             verb rune (also `v`), all 32 flag sets
                `decimal_format_args_encoding_independent`   the internal `Decimal.format`
                ANSWER to "does some flag combination make the output depend on the encoding": NO.  `Spec.fmtSpec`
                is a function of (sign, `Spec.sliceOf c e`) and `sliceOf` strips the trailing zeros of `c`
                (`Cohort.sliceOf_congr`); `#` with `%g` pads with zeros up to the precision — it does not keep the
                operand's own trailing zeros (`%#g` of `1.0` and of `1.00` are both `1.00000`; `#eval` on the
                generated code agrees).  The only hypotheses are the size bounds of C07b/C07c (buffer `< 2^61` bytes,
                spec `< 2^63` bytes, width in `[0, 2^62)`, precision `< 2^56` — beyond which the output would have
                ≥ 2^56 bytes and `format_spec` is not available).
  6. Decompose  `decompose_encoding_independent`  same form, same sign, coefficient·10^exponent equal (ℚ); the
                coefficient bytes and exponent themselves differ (`[10], −1` vs `[100], −2`) — they are the encoding;
                identical results for NaN, ±Inf and all zeros of one sign.  (`same` only: the sign of a NaN is
                reported by `Decompose`, so two NaNs of different sign give different results.)

  Nothing was found false.  The expectation of the task description that the precision-less texts of `1.0` and `1.00`
  differ is not what the code does: they are byte-identical (`"1"`).
-/
import D128.Props.C19b
import D128.Props.C10b
import D128.Props.C09b
import D128.Props.C06b
import D128.Props.C13
import D128.Props.C07c
import D128.Props.C14
import D128.Proofs.CohortText
set_option autoImplicit false

namespace Props.C19
open Cohort

/-- the value a bit pattern denotes -/
local notation "𝔳[" d "]" => Spec.interp (Gen.Decimal.lo d) (Gen.Decimal.hi d)

/-! ## 1. `Decimal.Int` (big.Int) -/

/-- **`Int`**: the same big integer (the value truncated toward zero), or the same documented panic — NaN:
    "Decimal(NaN).Int()" whatever sign and payload; ±Inf: the message names the sign, which `same` fixes.  The
    destination arguments may differ. -/
theorem bigInt_encoding_independent_num (d d' : Gen.Decimal) (i0 i0' : Go.BigInt)
    (h : (𝔳[d]).sameNum 𝔳[d'] = true) :
    Gen.Decimal.Int_ d i0 = Gen.Decimal.Int_ d' i0' := by
  rw [Props.C10b.int_spec, Props.C10b.int_spec]
  rcases sameNum_cases h with ⟨n, p, n', p', h1, h2⟩ | ⟨n, h1, h2⟩ | ⟨n, c, e, c', e', h1, h2, hm⟩
  · rw [h1, h2]
  · rw [h1, h2]
  · have hs : (Spec.Val.fin n c e).same (.fin n c' e') = true := (same_fin_iff _ _ _ _ _ _).2 ⟨rfl, hm⟩
    rw [h1, h2]
    show Except.ok _ = Except.ok _
    rw [CanonPf.truncInt_congr _ _ hs]

theorem bigInt_encoding_independent (d d' : Gen.Decimal) (i0 i0' : Go.BigInt)
    (h : (𝔳[d]).same 𝔳[d'] = true) :
    Gen.Decimal.Int_ d i0 = Gen.Decimal.Int_ d' i0' :=
  bigInt_encoding_independent_num d d' i0 i0' (sameNum_of_same h)

/-! ## 2. `Decimal.Rat` (big.Rat) -/

theorem toRat_congr {x x' : Spec.Val} (h : x.sameNum x' = true) : x.toRat = x'.toRat := by
  rcases sameNum_cases h with ⟨n, p, n', p', h1, h2⟩ | ⟨n, h1, h2⟩ | ⟨n, c, e, c', e', h1, h2, hm⟩
  · rw [h1, h2]; rfl
  · rw [h1, h2]
  · rw [h1, h2, Props.C10b.rat_value, Props.C10b.rat_value, hm]

/-- **`Rat`**: the same rational (a `big.Rat` is kept in lowest terms: `Rat` of the model), or the same panic -/
theorem bigRat_encoding_independent_num (d d' : Gen.Decimal) (r0 r0' : Go.BigRat)
    (h : (𝔳[d]).sameNum 𝔳[d'] = true) :
    Gen.Decimal.Rat d r0 = Gen.Decimal.Rat d' r0' := by
  have ht := toRat_congr h
  rw [Props.C10b.rat_spec, Props.C10b.rat_spec]
  rcases sameNum_cases h with ⟨n, p, n', p', h1, h2⟩ | ⟨n, h1, h2⟩ | ⟨n, c, e, c', e', h1, h2, hm⟩
  · rw [h1, h2]
  · rw [h1, h2]
  · rw [h1, h2] at ht ⊢
    show Except.ok _ = Except.ok _
    rw [ht]

theorem bigRat_encoding_independent (d d' : Gen.Decimal) (r0 r0' : Go.BigRat)
    (h : (𝔳[d]).same 𝔳[d'] = true) :
    Gen.Decimal.Rat d r0 = Gen.Decimal.Rat d' r0' :=
  bigRat_encoding_independent_num d d' r0 r0' (sameNum_of_same h)

/-! ## 3. `Decimal.Float` (big.Float) -/

/-- **`Float`**: the same `big.Float` — precision, mode, form, sign and magnitude, i.e. the exact value rounded ONCE
    to the receiver's precision in the receiver's mode — for EVERY receiver, or the documented panic (NaN) in both.
    The existing specification (`Props.C09b.float_spec`) is an equation in terms of the value, so nothing is
    missing: this is complete, for every precision ≥ 0 and every mode byte. -/
theorem bigFloat_encoding_independent_num (d d' : Gen.Decimal) (f : Option Go.BigFloat)
    (hf : Props.C09b.RecvOK f) (h : (𝔳[d]).sameNum 𝔳[d'] = true) :
    Gen.Decimal.Float d f = Gen.Decimal.Float d' f := by
  rw [Props.C09b.float_spec d f hf, Props.C09b.float_spec d' f hf]
  rcases sameNum_cases h with ⟨n, p, n', p', h1, h2⟩ | ⟨n, h1, h2⟩ | ⟨n, c, e, c', e', h1, h2, hm⟩
  · rw [h1, h2]
  · rw [h1, h2]
  · rw [h1, h2]
    show Except.ok _ = Except.ok _
    rw [hm]

theorem bigFloat_encoding_independent (d d' : Gen.Decimal) (f : Option Go.BigFloat)
    (hf : Props.C09b.RecvOK f) (h : (𝔳[d]).same 𝔳[d'] = true) :
    Gen.Decimal.Float d f = Gen.Decimal.Float d' f :=
  bigFloat_encoding_independent_num d d' f hf (sameNum_of_same h)

/-! ## 4. the text forms without a precision: `String`, `MarshalText`, `MarshalJSON`, `Append` / `Format` with
       `prec < 0`, `%v` -/

/-- two finite encodings of one value have the same digit slice -/
private theorem slice_of_same {n n' : Bool} {c c' : Nat} {e e' : Int}
    (h : (Spec.Val.fin n c e).same (.fin n' c' e') = true) :
    n = n' ∧ Spec.sliceOf c e = Spec.sliceOf c' e' :=
  ⟨((same_fin_iff _ _ _ _ _ _).1 h).1, sliceOf_same h⟩

/-- **`String`**: identical bytes (the shortest form has no trailing zeros to tell `1.0` from `1.00`); a NaN may
    even be replaced by any NaN -/
theorem string_encoding_independent_num (d d' : Gen.Decimal) (h : (𝔳[d]).sameNum 𝔳[d'] = true) :
    Gen.Decimal.String d = Gen.Decimal.String d' := by
  rcases sameNum_cases h with ⟨n, p, n', p', h1, h2⟩ | ⟨n, h1, h2⟩ | ⟨n, c, e, c', e', h1, h2, hm⟩
  · rw [Props.C06b.string_nan d n p h1, Props.C06b.string_nan d' n' p' h2]
  · rw [Props.C06b.string_inf d n h1, Props.C06b.string_inf d' n h2]
  · obtain ⟨o, ho, hc, _⟩ := Props.C06b.string_spec d n c e h1
    obtain ⟨o', ho', hc', _⟩ := Props.C06b.string_spec d' n c' e' h2
    rw [ho, ho', Emit.chars_inj (a := o) (b := o') (by rw [hc, hc', sliceOf_congr hm])]

theorem string_encoding_independent (d d' : Gen.Decimal) (h : (𝔳[d]).same 𝔳[d'] = true) :
    Gen.Decimal.String d = Gen.Decimal.String d' :=
  string_encoding_independent_num d d' (sameNum_of_same h)

/-- **`MarshalText`**: identical bytes and error -/
theorem marshalText_encoding_independent_num (d d' : Gen.Decimal) (h : (𝔳[d]).sameNum 𝔳[d'] = true) :
    Gen.Decimal.MarshalText d = Gen.Decimal.MarshalText d' := by
  rcases sameNum_cases h with ⟨n, p, n', p', h1, h2⟩ | ⟨n, h1, h2⟩ | ⟨n, c, e, c', e', h1, h2, hm⟩
  · rw [Props.C06b.marshalText_nan d n p h1, Props.C06b.marshalText_nan d' n' p' h2]
  · rw [Props.C06b.marshalText_inf d n h1, Props.C06b.marshalText_inf d' n h2]
  · obtain ⟨o, ho, hc, _⟩ := Props.C06b.marshalText_spec d n c e h1
    obtain ⟨o', ho', hc', _⟩ := Props.C06b.marshalText_spec d' n c' e' h2
    rw [ho, ho', Emit.chars_inj (a := o) (b := o') (by rw [hc, hc', sliceOf_congr hm])]

theorem marshalText_encoding_independent (d d' : Gen.Decimal) (h : (𝔳[d]).same 𝔳[d'] = true) :
    Gen.Decimal.MarshalText d = Gen.Decimal.MarshalText d' :=
  marshalText_encoding_independent_num d d' (sameNum_of_same h)

/-- **`MarshalJSON`**: identical bytes, or `*json.UnsupportedValueError` in both -/
theorem marshalJSON_encoding_independent_num (d d' : Gen.Decimal) (h : (𝔳[d]).sameNum 𝔳[d'] = true) :
    Gen.Decimal.MarshalJSON d = Gen.Decimal.MarshalJSON d' := by
  rcases sameNum_cases h with ⟨n, p, n', p', h1, h2⟩ | ⟨n, h1, h2⟩ | ⟨n, c, e, c', e', h1, h2, hm⟩
  · rw [Props.C13.marshalJSON_nan d n p h1, Props.C13.marshalJSON_nan d' n' p' h2]
  · rw [Props.C13.marshalJSON_inf d n h1, Props.C13.marshalJSON_inf d' n h2]
  · obtain ⟨o, ho, hc, _⟩ := Props.C13.marshalJSON_spec d n c e h1
    obtain ⟨o', ho', hc', _⟩ := Props.C13.marshalJSON_spec d' n c' e' h2
    rw [ho, ho', Emit.chars_inj (a := o) (b := o') (by rw [hc, hc', sliceOf_congr hm])]

theorem marshalJSON_encoding_independent (d d' : Gen.Decimal) (h : (𝔳[d]).same 𝔳[d'] = true) :
    Gen.Decimal.MarshalJSON d = Gen.Decimal.MarshalJSON d' :=
  marshalJSON_encoding_independent_num d d' (sameNum_of_same h)

/-- **what the common text denotes** (finite operands): ONE byte string is returned for both encodings; read
    with the grammar of the specification it is a numeral `±n·10^sc` with the common sign and
    `n·10^sc = c·10^e = c'·10^e'` -/
theorem string_denotes_encoding_independent (d d' : Gen.Decimal) (neg neg' : Bool) (c c' : Nat) (e e' : Int)
    (hfin : 𝔳[d] = .fin neg c e) (hfin' : 𝔳[d'] = .fin neg' c' e')
    (h : (𝔳[d]).same 𝔳[d'] = true) (sep names : Bool) :
    ∃ out n sc, Gen.Decimal.String d = .ok out ∧ Gen.Decimal.String d' = .ok out ∧
      Spec.readLiteral sep names (Emit.chars out) = some (.num neg n sc) ∧ neg = neg' ∧
      (n : ℚ) * (10 : ℚ) ^ sc = (c : ℚ) * (10 : ℚ) ^ e ∧
      (n : ℚ) * (10 : ℚ) ^ sc = (c' : ℚ) * (10 : ℚ) ^ e' := by
  obtain ⟨out, n, sc, ho, hr, hv, _⟩ := Props.C06b.string_denotes d neg c e hfin sep names
  have hs := h
  rw [hfin, hfin'] at hs
  obtain ⟨hn, hm⟩ := (same_fin_iff _ _ _ _ _ _).1 hs
  exact ⟨out, n, sc, ho, by rw [← string_encoding_independent d d' h]; exact ho, hr, hn, hv, hv.trans hm⟩

/-- the same for the JSON token (`Spec.readJsonNumber`, RFC 8259) -/
theorem marshalJSON_denotes_encoding_independent (d d' : Gen.Decimal) (neg neg' : Bool) (c c' : Nat)
    (e e' : Int) (hfin : 𝔳[d] = .fin neg c e) (hfin' : 𝔳[d'] = .fin neg' c' e')
    (h : (𝔳[d]).same 𝔳[d'] = true) :
    ∃ out n sc nd, Gen.Decimal.MarshalJSON d = .ok (out, Go.Err.nil) ∧
      Gen.Decimal.MarshalJSON d' = .ok (out, Go.Err.nil) ∧
      Spec.readJsonNumber (Emit.chars out) = some (neg, n, sc, nd) ∧ neg = neg' ∧
      (n : ℚ) * (10 : ℚ) ^ sc = (c : ℚ) * (10 : ℚ) ^ e ∧
      (n : ℚ) * (10 : ℚ) ^ sc = (c' : ℚ) * (10 : ℚ) ^ e' := by
  obtain ⟨out, n, sc, nd, ho, hr, hv, _⟩ := Props.C13.marshalJSON_valid d neg c e hfin
  have hs := h
  rw [hfin, hfin'] at hs
  obtain ⟨hn, hm⟩ := (same_fin_iff _ _ _ _ _ _).1 hs
  exact ⟨out, n, sc, nd, ho, by rw [← marshalJSON_encoding_independent d d' h]; exact ho, hr, hn, hv,
    hv.trans hm⟩

/-! ## 5. `Append` / `Format` (API functions), `Decimal.Append`, `Decimal.Format` (fmt.Formatter) with ANY
       precision, verb, flags and width -/

/-- **`Append(buf, d, fmt, prec)`**: identical outcome for EVERY verb byte and every precision below `2^56`
    (negative = shortest form): the same bytes appended — `Spec.fmtSpec` / the shortest forms are functions of the
    sign and of the digit slice without trailing zeros, which is the same for all encodings of a value. -/
theorem append_encoding_independent_num (buf : Go.Bytes) (d d' : Gen.Decimal) (fmt : UInt8) (prec : Int64)
    (h : (𝔳[d]).sameNum 𝔳[d'] = true) (hp : prec.toInt < 2 ^ 56) (hb : buf.size < 2 ^ 61) :
    Gen.Append buf d fmt prec = Gen.Append buf d' fmt prec := by
  rcases sameNum_cases h with ⟨n, p, n', p', h1, h2⟩ | ⟨n, h1, h2⟩ | ⟨n, c, e, c', e', h1, h2, hm⟩
  · rw [Props.C06b.append_nan buf d fmt prec n p h1 (by omega),
      Props.C06b.append_nan buf d' fmt prec n' p' h2 (by omega)]
  · rw [Props.C06b.append_inf buf d fmt prec n h1 (by omega),
      Props.C06b.append_inf buf d' fmt prec n h2 (by omega)]
  · have hsl := sliceOf_congr hm
    have hs := (Emit.fin_fields d n c e h1).1
    have hs' := (Emit.fin_fields d' n c' e' h2).1
    by_cases hv : fmt = 101 ∨ fmt = 69 ∨ fmt = 102 ∨ fmt = 103 ∨ fmt = 71
    · by_cases hneg : prec.toInt < 0
      · rcases hv with hv | hv | hv | hv | hv
        · obtain ⟨o, ho, hc⟩ := Props.C06b.append_e buf d fmt prec n c e h1 hneg (by omega) (Or.inl hv)
          obtain ⟨o', ho', hc'⟩ := Props.C06b.append_e buf d' fmt prec n c' e' h2 hneg (by omega) (Or.inl hv)
          rw [ho, ho', Emit.chars_inj (a := o) (b := o') (by rw [hc, hc', hsl])]
        · obtain ⟨o, ho, hc⟩ := Props.C06b.append_e buf d fmt prec n c e h1 hneg (by omega) (Or.inr hv)
          obtain ⟨o', ho', hc'⟩ := Props.C06b.append_e buf d' fmt prec n c' e' h2 hneg (by omega) (Or.inr hv)
          rw [ho, ho', Emit.chars_inj (a := o) (b := o') (by rw [hc, hc', hsl])]
        · subst hv
          obtain ⟨o, ho, hc⟩ := Props.C06b.append_f buf d prec n c e h1 hneg (by omega)
          obtain ⟨o', ho', hc'⟩ := Props.C06b.append_f buf d' prec n c' e' h2 hneg (by omega)
          rw [ho, ho', Emit.chars_inj (a := o) (b := o') (by rw [hc, hc', hsl])]
        · obtain ⟨o, ho, hc⟩ := Props.C06b.append_g buf d fmt prec n c e h1 hneg (by omega) (Or.inl hv)
          obtain ⟨o', ho', hc'⟩ := Props.C06b.append_g buf d' fmt prec n c' e' h2 hneg (by omega) (Or.inl hv)
          rw [ho, ho', Emit.chars_inj (a := o) (b := o') (by rw [hc, hc', hsl])]
        · obtain ⟨o, ho, hc⟩ := Props.C06b.append_g buf d fmt prec n c e h1 hneg (by omega) (Or.inr hv)
          obtain ⟨o', ho', hc'⟩ := Props.C06b.append_g buf d' fmt prec n c' e' h2 hneg (by omega) (Or.inr hv)
          rw [ho, ho', Emit.chars_inj (a := o) (b := o') (by rw [hc, hc', hsl])]
      · obtain ⟨o, ho, hc⟩ := Props.C07.append_spec buf d fmt prec n c e h1 hv (by omega) hp hb
        obtain ⟨o', ho', hc'⟩ := Props.C07.append_spec buf d' fmt prec n c' e' h2 hv (by omega) hp hb
        rw [ho, ho', Ly.bstr_inj (a := o) (b := o') (by rw [hc, hc', hsl])]
    · have hv' : fmt ≠ 101 ∧ fmt ≠ 69 ∧ fmt ≠ 102 ∧ fmt ≠ 103 ∧ fmt ≠ 71 :=
        ⟨fun x => hv (Or.inl x), fun x => hv (Or.inr (Or.inl x)), fun x => hv (Or.inr (Or.inr (Or.inl x))),
          fun x => hv (Or.inr (Or.inr (Or.inr (Or.inl x)))), fun x => hv (Or.inr (Or.inr (Or.inr (Or.inr x))))⟩
      rw [Append_other_any buf d fmt prec hs hv', Append_other_any buf d' fmt prec hs' hv']

theorem append_encoding_independent (buf : Go.Bytes) (d d' : Gen.Decimal) (fmt : UInt8) (prec : Int64)
    (h : (𝔳[d]).same 𝔳[d'] = true) (hp : prec.toInt < 2 ^ 56) (hb : buf.size < 2 ^ 61) :
    Gen.Append buf d fmt prec = Gen.Append buf d' fmt prec :=
  append_encoding_independent_num buf d d' fmt prec (sameNum_of_same h) hp hb

/-- **`Format(d, fmt, prec)`** -/
theorem format_fn_encoding_independent_num (d d' : Gen.Decimal) (fmt : UInt8) (prec : Int64)
    (h : (𝔳[d]).sameNum 𝔳[d'] = true) (hp : prec.toInt < 2 ^ 56) :
    Gen.Format d fmt prec = Gen.Format d' fmt prec := by
  rw [Props.C06b.format_eq, Props.C06b.format_eq,
    append_encoding_independent_num #[] d d' fmt prec h hp (by decide)]

theorem format_fn_encoding_independent (d d' : Gen.Decimal) (fmt : UInt8) (prec : Int64)
    (h : (𝔳[d]).same 𝔳[d'] = true) (hp : prec.toInt < 2 ^ 56) :
    Gen.Format d fmt prec = Gen.Format d' fmt prec :=
  format_fn_encoding_independent_num d d' fmt prec (sameNum_of_same h) hp

/-- **`Decimal.Append(buf, spec)`**: identical outcome for EVERY spec byte string — all flags (`#` included: `%#g`
    pads with zeros up to the precision, it does not keep the operand's own trailing zeros), widths, precisions,
    verbs (a missing verb gives `%!(NOVERB)` in both, an unknown verb ends in the unmodelled `fmt.Appendf` arm in
    both). -/
theorem decimal_append_encoding_independent_num (d d' : Gen.Decimal) (buf spec : Go.Bytes)
    (h : (𝔳[d]).sameNum 𝔳[d'] = true) (hs : spec.size < 2 ^ 63) (hb : buf.size < 2 ^ 61) :
    Gen.Decimal.Append d buf spec = Gen.Decimal.Append d' buf spec :=
  decimal_Append_congr d d' h buf spec hs hb

theorem decimal_append_encoding_independent (d d' : Gen.Decimal) (buf spec : Go.Bytes)
    (h : (𝔳[d]).same 𝔳[d'] = true) (hs : spec.size < 2 ^ 63) (hb : buf.size < 2 ^ 61) :
    Gen.Decimal.Append d buf spec = Gen.Decimal.Append d' buf spec :=
  decimal_Append_congr d d' (sameNum_of_same h) buf spec hs hb

/-- **`Decimal.Format(state, verb)`** (fmt.Formatter; `%v` and every other verb rune): identical resulting state
    (same bytes written) or the unmodelled `fmt.Appendf` arm in both, for every state with a width in `[0, 2^62)`
    and a precision below `2^56` if present. -/
theorem decimal_format_encoding_independent_num (d d' : Gen.Decimal) (st : Go.FmtState) (verb : Int32)
    (h : (𝔳[d]).sameNum 𝔳[d'] = true)
    (hwid : ∀ w, st.wid = some w → 0 ≤ w.toInt ∧ w.toInt < 2 ^ 62)
    (hprec : ∀ p, st.prec = some p → p.toInt < 2 ^ 56) :
    Gen.Decimal.Format d st verb = Gen.Decimal.Format d' st verb :=
  decimal_Format_congr d d' h st verb hwid hprec

theorem decimal_format_encoding_independent (d d' : Gen.Decimal) (st : Go.FmtState) (verb : Int32)
    (h : (𝔳[d]).same 𝔳[d'] = true)
    (hwid : ∀ w, st.wid = some w → 0 ≤ w.toInt ∧ w.toInt < 2 ^ 62)
    (hprec : ∀ p, st.prec = some p → p.toInt < 2 ^ 56) :
    Gen.Decimal.Format d st verb = Gen.Decimal.Format d' st verb :=
  decimal_Format_congr d d' (sameNum_of_same h) st verb hwid hprec

/-- … in particular on every State package fmt can produce (width and precision at most `10^6`) -/
theorem decimal_format_encoding_independent_fmt (d d' : Gen.Decimal) (st : Go.FmtState) (verb : Int32)
    (h : (𝔳[d]).same 𝔳[d'] = true)
    (hwid : ∀ w, st.wid = some w → 0 ≤ w.toInt ∧ w.toInt ≤ 1000000)
    (hprec : ∀ p, st.prec = some p → 0 ≤ p.toInt ∧ p.toInt ≤ 1000000) :
    Gen.Decimal.Format d st verb = Gen.Decimal.Format d' st verb :=
  decimal_format_encoding_independent d d' st verb h
    (fun w hw => by have := hwid w hw; omega) (fun p hp => by have := hprec p hp; omega)

/-- the internal `Decimal.format` (finite operands) -/
theorem decimal_format_args_encoding_independent (d d' : Gen.Decimal) (buf : Go.Bytes) (a : Gen.formatArgs)
    (h : (𝔳[d]).same 𝔳[d'] = true) (hfin : (𝔳[d]).isFin = true)
    (hprec : a.prec.toInt < 2 ^ 56) (hw0 : 0 ≤ a.wid.toInt) (hw1 : a.wid.toInt < 2 ^ 62)
    (hprz : a.padRight = true → a.padZero = false) (hb : buf.size < 2 ^ 61) :
    Gen.Decimal.format d buf a = Gen.Decimal.format d' buf a :=
  format_congr d d' h (by rw [Enc.interp_isFin] at hfin; simpa using hfin) buf a hprec hw0 hw1 hprz hb

/-! ## 6. `Decompose` (database/sql) -/

/-- **`Decompose`**: same form, same sign, and coefficient·10^exponent equal — the coefficient bytes and the
    exponent themselves do differ between cohort members (`[10]`, −1 vs `[100]`, −2); for NaN, ±Inf and zeros the
    results are identical (no bytes, exponent 0). -/
theorem decompose_encoding_independent (d d' : Gen.Decimal) (buf buf' : Go.Bytes)
    (hb : buf.size < 2 ^ 63) (hb' : buf'.size < 2 ^ 63) (h : (𝔳[d]).same 𝔳[d'] = true) :
    ∃ form neg bytes e32 bytes' e32',
      Gen.Decimal.Decompose d buf = .ok (form, neg, bytes, e32) ∧
      Gen.Decimal.Decompose d' buf' = .ok (form, neg, bytes', e32') ∧
      (Spec.beNat bytes : ℚ) * (10 : ℚ) ^ e32.toInt = (Spec.beNat bytes' : ℚ) * (10 : ℚ) ^ e32'.toInt ∧
      (Spec.beNat bytes = 0 ↔ Spec.beNat bytes' = 0) ∧
      ((form ≠ 0 ∨ Spec.beNat bytes = 0) → bytes = #[] ∧ bytes' = #[] ∧ e32 = 0 ∧ e32' = 0) := by
  have hsg := sign_congr d d' h
  obtain ⟨hsp, hnan⟩ := special_congr d d' h
  have hb0 : Spec.beNat #[] = 0 := rfl
  by_cases hn : Gen.Decimal.IsNaN d = true
  · refine ⟨2, Gen.Decimal.Signbit d, #[], 0, #[], 0, (Props.C14.decompose_special d buf).1 hn, ?_, rfl,
      Iff.rfl, fun _ => ⟨rfl, rfl, rfl, rfl⟩⟩
    rw [hsg]; exact (Props.C14.decompose_special d' buf').1 (by rw [← hnan]; exact hn)
  have hn0 : Gen.Decimal.IsNaN d = false := by simpa using hn
  by_cases hs : Gen.Decimal.isSpecial d = true
  · have hi : Gen.Decimal.isInf d = true := by
      have := Enc.isSpecial_iff d; rw [hs, hn0] at this; simpa using this.symm
    have hi' : Gen.Decimal.isInf d' = true := by
      have := Enc.isSpecial_iff d'; rw [← hsp, hs, ← hnan, hn0] at this; simpa using this.symm
    refine ⟨1, Gen.Decimal.Signbit d, #[], 0, #[], 0, (Props.C14.decompose_special d buf).2 hn0 hi, ?_, rfl,
      Iff.rfl, fun _ => ⟨rfl, rfl, rfl, rfl⟩⟩
    rw [hsg]; exact (Props.C14.decompose_special d' buf').2 (by rw [← hnan]; exact hn0) hi'
  have hs0 : Gen.Decimal.isSpecial d = false := by simpa using hs
  obtain ⟨s, c, e, bytes, e32, hv, hd, hz, hnz⟩ := Props.C14.decompose_denotes d buf hb hs0
  obtain ⟨s', c', e', bytes', e32', hv', hd', hz', hnz'⟩ :=
    Props.C14.decompose_denotes d' buf' hb' (by rw [← hsp]; exact hs0)
  have hsm := h
  rw [hv, hv'] at hsm
  obtain ⟨hss, hm⟩ := (same_fin_iff _ _ _ _ _ _).1 hsm
  subst hss
  have hzz := zero_iff_of_mag hm
  by_cases hc : c = 0
  · obtain ⟨b1, b2⟩ := hz hc
    obtain ⟨b1', b2'⟩ := hz' (hzz.1 hc)
    subst b1 b2 b1' b2'
    exact ⟨0, s, #[], 0, #[], 0, hd, hd', rfl, Iff.rfl, fun _ => ⟨rfl, rfl, rfl, rfl⟩⟩
  · have hc' : c' ≠ 0 := fun x => hc (hzz.2 x)
    obtain ⟨a1, _, _, _, a5⟩ := hnz hc
    obtain ⟨a1', _, _, _, a5'⟩ := hnz' hc'
    refine ⟨0, s, bytes, e32, bytes', e32', hd, hd', ?_, ?_, ?_⟩
    · rw [a1, a1', a5, a5']; exact hm
    · rw [a1, a1']; exact hzz
    · rintro (x | x)
      · exact absurd rfl x
      · rw [a1] at x; exact absurd x hc

/-! ## the hypotheses are satisfiable: `1.0` (coefficient 10, exponent −1) vs `1.00` (coefficient 100, exponent −2) -/

theorem ex_ten_g : (𝔳[Gen.compose false ⟨10, 0⟩ 6175]).same 𝔳[Gen.compose false ⟨100, 0⟩ 6174] = true := by
  decide +kernel

example := fun i0 i0' => bigInt_encoding_independent _ _ i0 i0' ex_ten_g
example := fun r0 r0' => bigRat_encoding_independent _ _ r0 r0' ex_ten_g
example := bigFloat_encoding_independent _ _ none Props.C09b.recvOK_nil ex_ten_g
example := bigFloat_encoding_independent _ _ (some ⟨3, 5, .finite, true, 5⟩) (fun x hx => by cases hx; decide) ex_ten_g
example := string_encoding_independent _ _ ex_ten_g
example := marshalText_encoding_independent _ _ ex_ten_g
example := marshalJSON_encoding_independent _ _ ex_ten_g
example := string_denotes_encoding_independent _ _ false false 10 100 (-1) (-2) (by decide +kernel)
  (by decide +kernel) ex_ten_g true true
example := marshalJSON_denotes_encoding_independent _ _ false false 10 100 (-1) (-2) (by decide +kernel)
  (by decide +kernel) ex_ten_g
example := append_encoding_independent (Go.str "x=") _ _ 103 (-1) ex_ten_g (by decide) (by decide)
example := append_encoding_independent #[] _ _ 101 3 ex_ten_g (by decide) (by decide)
example := format_fn_encoding_independent _ _ 102 2 ex_ten_g (by decide)
example := decimal_append_encoding_independent _ _ #[] "#+012.5G".toUTF8.data ex_ten_g (by decide) (by decide)
example := decimal_format_encoding_independent _ _
  { plus := true, minus := false, sharp := true, space := false, zero := true, wid := some 12, prec := some 5,
    out := #[] } 103 ex_ten_g (fun w hw => by cases hw; decide) (fun p hp => by cases hp; decide)
example := fun (st : Go.FmtState) => decimal_format_encoding_independent _ _ { st with wid := none, prec := none } 118 ex_ten_g
  (fun w hw => by cases hw) (fun p hp => by cases hp)
example := decompose_encoding_independent _ _ #[] #[] (by decide) (by decide) ex_ten_g
/-- two NaNs with different signs and payloads (`sameNum`): same panic, same text -/
example := fun i0 i0' => bigInt_encoding_independent_num _ _ i0 i0' ex_nan
example := string_encoding_independent_num _ _ ex_nan
example := marshalJSON_encoding_independent_num _ _ ex_nan
example := decimal_append_encoding_independent_num _ _ #[] "+8e".toUTF8.data ex_nan (by decide) (by decide)
example := decimal_format_encoding_independent_fmt _ _
  { plus := false, minus := true, sharp := false, space := true, zero := true, wid := some 1000000,
    prec := some 1000000, out := #[] } 70 ex_ten_g (fun w hw => by cases hw; decide) (fun p hp => by cases hp; decide)

end Props.C19
