/-
  Property C20 (continued): totality — and the exact output — of the remaining `String` methods and of the
  constants `E`, `Pi`, `Phi` (Go: /repo/rounding.go, /repo/payload.go, /repo/int.go, /repo/decomposed.go,
  /repo/constants.go).  Lemmas: `D128/Proofs/TotalStrings.lean`.

  In the model a call into a package the translator does not model (`fmt.Sprintf`, `strconv.FormatInt`) is
  `throw (Go.Panic.unmodelled "<name>")`; that is the place where the model stops, NOT a panic of the Go code.
  "Total" below therefore reads: the result is `.ok _` or `.error (.unmodelled _)`, never one of the run-time
  panics `divZero, div64, index, slice, shift, explicit _, makeslice` (`NoGoPanic`, `NoGoPanic.cases`).

  1. `RoundingMode_String`       : the six documented names for `rm ≤ 5`, `unmodelled "fmt.Sprintf"` otherwise
     `RoundingMode_String_table`, `RoundingMode_String_unknown`
  2. `argString_8`, `argString_16` : `.ok` of one of seven words, selected by the byte `(p >>> off) &&& 0xff`
     `argWord_cases`             : the seven words
  3. `Payload_String`            : `Gen.Payload.String p = outcome (payloadText p)` (tables `payloadText`, `opText`,
     `argWord` over plain strings), `Payload_String_zero`, `Payload_String_large`, `Payload_String_op`,
     `Payload_String_other`, `Payload_String_ok_iff`
  4. `U128_String`, `U192_String`, `U256_String`, `U384_String` : `.ok` of the decimal numeral `toString n.toNat`
     for ALL inputs (no index/slice/division panic; the loop terminates);
     `decomposed192_String`      : stops at `strconv.FormatInt` for all inputs
  5. `E_value`, `Pi_value`, `Phi_value` : the 34-digit coefficients and the exponent −33 (`constants_34_digits`);
     `E_correctly_rounded`, `Pi_correctly_rounded`, `Phi_correctly_rounded` : the constants are the REAL numbers
     `Real.exp 1`, `Real.pi`, `(1+√5)/2` rounded to nearest at 34 digits: |x − c·10^-33| < ½·10^-33
     (`Phi_correctly_rounded_int`: the same for φ as an exact integer inequality)
  `strings_total`                : the bundle "never another panic"
-/
import D128.Gen.RoundingText
import D128.Gen.DecomposedText
import D128.Gen.Constants
import D128.Spec.Val
import D128.Proofs.TotalStrings
set_option autoImplicit false

namespace Props.C20d
open D128.Proofs.TotalStrings

/-- the model returns, or stops at a call of another package; it exhibits no run-time panic of the Go code -/
def NoGoPanic {α : Type} (x : Go.GoM α) : Prop :=
  (∃ r, x = .ok r) ∨ (∃ what, x = .error (.unmodelled what))

theorem NoGoPanic.not_explicit {α : Type} {x : Go.GoM α} (h : NoGoPanic x) (msg : String) :
    x ≠ .error (.explicit msg) := by
  rcases h with ⟨r, rfl⟩ | ⟨w, rfl⟩ <;> simp

theorem NoGoPanic.cases {α : Type} {x : Go.GoM α} (h : NoGoPanic x) :
    x ≠ .error .divZero ∧ x ≠ .error .div64 ∧ x ≠ .error .index ∧ x ≠ .error .slice ∧
    x ≠ .error .shift ∧ x ≠ .error .makeslice ∧ ∀ msg, x ≠ .error (.explicit msg) := by
  rcases h with ⟨r, rfl⟩ | ⟨w, rfl⟩ <;> simp

/-! ## 1. `RoundingMode.String` -/

/-- the documented names of the six rounding modes -/
def modeName (rm : UInt8) : Option String :=
  if rm = 0 then some "ToNearestEven" else if rm = 1 then some "ToNearestAway"
  else if rm = 2 then some "ToZero" else if rm = 3 then some "AwayFromZero"
  else if rm = 4 then some "ToNegativeInf" else if rm = 5 then some "ToPositiveInf"
  else none

/-- `RoundingMode.String`, every byte: the table, and `fmt.Sprintf("RoundingMode(%d)", …)` above 5 -/
theorem RoundingMode_String (rm : UInt8) : Gen.RoundingMode.String rm = outcome (modeName rm) := by
  unfold Gen.RoundingMode.String modeName
  simp only [apply_ite outcome]
  simp only [beq_iff_eq, outcome]
  rfl

/-- the table, entry by entry -/
theorem RoundingMode_String_table :
    Gen.RoundingMode.String 0 = .ok (Go.str "ToNearestEven") ∧
    Gen.RoundingMode.String 1 = .ok (Go.str "ToNearestAway") ∧
    Gen.RoundingMode.String 2 = .ok (Go.str "ToZero") ∧
    Gen.RoundingMode.String 3 = .ok (Go.str "AwayFromZero") ∧
    Gen.RoundingMode.String 4 = .ok (Go.str "ToNegativeInf") ∧
    Gen.RoundingMode.String 5 = .ok (Go.str "ToPositiveInf") :=
  ⟨rfl, rfl, rfl, rfl, rfl, rfl⟩

theorem modeName_isSome (rm : UInt8) : (modeName rm).isSome = true ↔ rm ≤ 5 := by
  simp only [modeName, apply_ite Option.isSome, Option.isSome_some, Option.isSome_none]
  simp only [← UInt8.toNat_inj, UInt8.le_iff_toNat_le]
  simp
  omega

theorem modeName_none (rm : UInt8) (h : 5 < rm) : modeName rm = none := by
  have := modeName_isSome rm
  cases hm : modeName rm with
  | none => rfl
  | some s =>
    rw [hm] at this
    have h5 := this.1 rfl
    rw [UInt8.le_iff_toNat_le] at h5; rw [UInt8.lt_iff_toNat_lt] at h
    omega

/-- above 5 the model stops exactly at `fmt.Sprintf` -/
theorem RoundingMode_String_unknown (rm : UInt8) (h : 5 < rm) :
    Gen.RoundingMode.String rm = .error (.unmodelled "fmt.Sprintf") := by
  rw [RoundingMode_String, modeName_none rm h]; rfl

/-- `.ok` exactly for the six modes -/
theorem RoundingMode_String_ok_iff (rm : UInt8) :
    (∃ s, Gen.RoundingMode.String rm = .ok s) ↔ rm ≤ 5 := by
  rw [RoundingMode_String, ← modeName_isSome]
  cases modeName rm <;> simp [outcome]

example : Gen.RoundingMode.String 3 = .ok (Go.str "AwayFromZero") := rfl
example : Gen.RoundingMode.String 200 = .error (.unmodelled "fmt.Sprintf") :=
  RoundingMode_String_unknown 200 (by decide)

/-! ## 2. `Payload.argString` (call sites: offsets 8 and 16) -/

theorem argString_8 (p : UInt64) :
    Gen.Payload.argString p 8 = .ok (Go.str (argWord ((p >>> 8) &&& 0xff))) :=
  D128.Proofs.TotalStrings.argString_8 p

theorem argString_16 (p : UInt64) :
    Gen.Payload.argString p 16 = .ok (Go.str (argWord ((p >>> 16) &&& 0xff))) :=
  D128.Proofs.TotalStrings.argString_16 p

/-- every non-negative offset (Go shift semantics: 0 once the count reaches 64) -/
theorem argString_nonneg (p : UInt64) (off : Int64) (h : 0 ≤ off.toInt) :
    Gen.Payload.argString p off = .ok (Go.str (argWord ((Go.shr p (Go.idx off)) &&& 0xff))) :=
  argString_eq p off h

/-- the seven words -/
theorem argWord_cases :
    argWord 1 = "Zero" ∧ argWord 2 = "-Zero" ∧ argWord 3 = "Finite" ∧ argWord 4 = "-Finite" ∧
    argWord 5 = "Infinite" ∧ argWord 6 = "-Infinite" ∧
    ∀ b : UInt64, ¬ (1 ≤ b ∧ b ≤ 6) → argWord b = "Unknown" := by
  refine ⟨rfl, rfl, rfl, rfl, rfl, rfl, ?_⟩
  intro b hb
  have h : ∀ k : UInt64, 1 ≤ k → k ≤ 6 → b ≠ k := by
    intro k h1 h2 e; subst e; exact hb ⟨h1, h2⟩
  unfold argWord
  rw [if_neg (h 1 (by decide) (by decide)), if_neg (h 2 (by decide) (by decide)),
    if_neg (h 3 (by decide) (by decide)), if_neg (h 4 (by decide) (by decide)),
    if_neg (h 5 (by decide) (by decide)), if_neg (h 6 (by decide) (by decide))]

example : Gen.Payload.argString 0x030109 8 = .ok (Go.str "Zero") := argString_8 _
example : Gen.Payload.argString 0x030109 16 = .ok (Go.str "Finite") := argString_16 _
example : Gen.Payload.argString 0x030909 8 = .ok (Go.str "Unknown") := argString_8 _

/-! ## 3. `Payload.String` -/

/-- `Payload.String`, every payload: the text of `payloadText` (tables `opText`, `argWord` in
    `D128/Proofs/TotalStrings.lean`), or the model stops at `fmt.Sprintf("Payload(%d)", …)` -/
theorem Payload_String (p : UInt64) : Gen.Payload.String p = outcome (payloadText p) :=
  payload_string p

theorem Payload_String_zero : Gen.Payload.String 0 = .ok (Go.str "Payload(0)") := rfl

/-- anything above 24 bits is printed by `fmt.Sprintf` -/
theorem Payload_String_large (p : UInt64) (h : 0xFFFFFF < p) :
    Gen.Payload.String p = .error (.unmodelled "fmt.Sprintf") := by
  rw [payload_string, payloadText]
  have h0 : p ≠ 0 := by intro e; subst e; exact absurd h (by decide)
  rw [if_neg h0, if_pos h]; rfl

/-- `0 < p ≤ 0xFFFFFF`: the operation named by the low byte, with the argument words of bytes 1 and 2 -/
theorem Payload_String_op (p : UInt64) (h0 : p ≠ 0) (h : p ≤ 0xFFFFFF) :
    Gen.Payload.String p
      = outcome (opText (p &&& 0xff) (argWord ((p >>> 8) &&& 0xff)) (argWord ((p >>> 16) &&& 0xff))) := by
  rw [payload_string, payloadText, if_neg h0, if_neg (by simpa using h)]

/-- the operation table: 19 codes -/
theorem opText_table (a b : String) :
    opText 1 a b = some "Compose()" ∧ opText 2 a b = some "FromFloat32()" ∧
    opText 3 a b = some "FromFloat64()" ∧ opText 4 a b = some "MustParse()" ∧
    opText 5 a b = some "NaN()" ∧ opText 6 a b = some "Parse()" ∧ opText 7 a b = some "Scan()" ∧
    opText 8 a b = some "UnmarshalText()" ∧
    opText 9 a b = some ("Add(" ++ a ++ ", " ++ b ++ ")") ∧
    opText 10 a b = some ("Log(" ++ a ++ ")") ∧ opText 11 a b = some ("Log10(" ++ a ++ ")") ∧
    opText 12 a b = some ("Log1p(" ++ a ++ ")") ∧ opText 13 a b = some ("Log2(" ++ a ++ ")") ∧
    opText 14 a b = some ("Mul(" ++ a ++ ", " ++ b ++ ")") ∧
    opText 15 a b = some ("Pow(" ++ a ++ ", " ++ b ++ ")") ∧
    opText 16 a b = some ("Quo(" ++ a ++ ", " ++ b ++ ")") ∧
    opText 17 a b = some ("QuoRem(" ++ a ++ ", " ++ b ++ ")") ∧
    opText 18 a b = some ("Sqrt(" ++ a ++ ")") ∧
    opText 19 a b = some ("Sub(" ++ a ++ ", " ++ b ++ ")") :=
  ⟨rfl, rfl, rfl, rfl, rfl, rfl, rfl, rfl, rfl, rfl, rfl, rfl, rfl, rfl, rfl, rfl, rfl, rfl, rfl⟩

/-- … and nothing else: a low byte outside `1..19` has no text -/
theorem opText_isSome (tag : UInt64) (a b : String) :
    (opText tag a b).isSome = true ↔ 1 ≤ tag ∧ tag ≤ 19 := by
  simp only [opText, apply_ite Option.isSome, Option.isSome_some, Option.isSome_none]
  simp only [← UInt64.toNat_inj, UInt64.le_iff_toNat_le]
  simp
  omega

/-- low byte 0 or above 19: printed by `fmt.Sprintf` -/
theorem Payload_String_other (p : UInt64) (h0 : p ≠ 0) (hb : ¬ (1 ≤ p &&& 0xff ∧ p &&& 0xff ≤ 19)) :
    Gen.Payload.String p = .error (.unmodelled "fmt.Sprintf") := by
  by_cases h : p ≤ 0xFFFFFF
  · rw [Payload_String_op p h0 h]
    have := opText_isSome (p &&& 0xff) (argWord ((p >>> 8) &&& 0xff)) (argWord ((p >>> 16) &&& 0xff))
    cases ho : opText (p &&& 0xff) (argWord ((p >>> 8) &&& 0xff)) (argWord ((p >>> 16) &&& 0xff)) with
    | none => rfl
    | some s => rw [ho] at this; exact absurd (this.1 rfl) hb
  · exact Payload_String_large p (by simpa using h)

/-- exactly when `Payload.String` is `.ok` -/
theorem Payload_String_ok_iff (p : UInt64) :
    (∃ s, Gen.Payload.String p = .ok s) ↔
      p = 0 ∨ (p ≤ 0xFFFFFF ∧ 1 ≤ p &&& 0xff ∧ p &&& 0xff ≤ 19) := by
  by_cases h0 : p = 0
  · subst h0; exact ⟨fun _ => Or.inl rfl, fun _ => ⟨_, rfl⟩⟩
  by_cases h : p ≤ 0xFFFFFF
  · rw [Payload_String_op p h0 h]
    have := opText_isSome (p &&& 0xff) (argWord ((p >>> 8) &&& 0xff)) (argWord ((p >>> 16) &&& 0xff))
    cases ho : opText (p &&& 0xff) (argWord ((p >>> 8) &&& 0xff)) (argWord ((p >>> 16) &&& 0xff)) with
    | none =>
      rw [ho] at this
      simp only [outcome, h0, h, false_or, true_and]
      constructor
      · rintro ⟨s, hs⟩; cases hs
      · intro hb; exact absurd (this.2 hb) (by simp)
    | some s =>
      rw [ho] at this
      simp only [outcome, h0, h, false_or, true_and]
      exact ⟨fun _ => this.1 rfl, fun _ => ⟨_, rfl⟩⟩
  · rw [Payload_String_large p (by simpa using h)]
    simp [h0, h]

/-- `Add(+0, +finite)`: tag 9, first argument class 1, second 3 -/
example : Gen.Payload.String 0x030109 = .ok (Go.str "Add(Zero, Finite)") := by
  rw [Payload_String]; rfl
example : Gen.Payload.String 0x000612 = .ok (Go.str "Sqrt(-Infinite)") := by
  rw [Payload_String]; rfl
example : Gen.Payload.String 0x00FF0A = .ok (Go.str "Log(Unknown)") := by
  rw [Payload_String]; rfl
example : Gen.Payload.String 0x14 = .error (.unmodelled "fmt.Sprintf") :=
  Payload_String_other _ (by decide) (by decide)
example : Gen.Payload.String 0x1000001 = .error (.unmodelled "fmt.Sprintf") :=
  Payload_String_large _ (by decide)

/-! ## 4. `uint128/uint192/uint256/uint384.String`, `decomposed192.String` -/

/-- `uint128.String`: `.ok` for ALL inputs, the decimal numeral of the value (no `bits.Div64`, index or slice
    panic: the 39-byte buffer always suffices, `2^128 < 10^39`) -/
theorem U128_String (n : U128) : Gen.U128.String n = .ok (Go.str (toString n.toNat)) :=
  U128_String_ok n

/-- `uint192.String`: `.ok` for all inputs (58 bytes, `2^192 < 10^58`) -/
theorem U192_String (n : U192) : Gen.U192.String n = .ok (Go.str (toString n.toNat)) :=
  U192_String_ok n

/-- `uint256.String`: `.ok` for all inputs (78 bytes, `2^256 < 10^78`) -/
theorem U256_String (n : U256) : Gen.U256.String n = .ok (Go.str (toString n.toNat)) :=
  U256_String_ok n

/-- `uint384.String`: `.ok` for all inputs (116 bytes, `2^384 < 10^116`) -/
theorem U384_String (n : U384) : Gen.U384.String n = .ok (Go.str (toString n.toNat)) :=
  U384_String_ok n

/-- `decomposed192.String` (debug helper, `sig.String() + "e" + strconv.FormatInt(exp)`): the significand part
    never panics, the model stops at `strconv.FormatInt` for ALL inputs -/
theorem decomposed192_String (d : Gen.decomposed192) :
    Gen.decomposed192.String d = .error (.unmodelled "strconv.FormatInt") := by
  unfold Gen.decomposed192.String
  rw [U192_String_ok]; rfl

example : Gen.U128.String ⟨0, 1⟩ = .ok (Go.str "18446744073709551616") := by
  rw [U128_String]; rfl
example : Gen.U128.String ⟨0, 0⟩ = .ok (Go.str "0") := by rw [U128_String]; rfl
example : Gen.U256.String ⟨7, 0, 0, 0⟩ = .ok (Go.str "7") := by rw [U256_String]; rfl

/-! ## 5. the constants -/

/-- `E` = 2.718281828459045235360287471352662 (e = 2.718281828459045235360287471352662|4977…) -/
theorem E_value :
    Spec.interp Gen.E.lo Gen.E.hi = .fin false 2718281828459045235360287471352662 (-33) := by decide

/-- `Pi` = 3.141592653589793238462643383279503 (π = 3.141592653589793238462643383279502|8841…, rounded up) -/
theorem Pi_value :
    Spec.interp Gen.Pi.lo Gen.Pi.hi = .fin false 3141592653589793238462643383279503 (-33) := by decide

/-- `Phi` = 1.618033988749894848204586834365638 (φ = 1.618033988749894848204586834365638|1177…) -/
theorem Phi_value :
    Spec.interp Gen.Phi.lo Gen.Phi.hi = .fin false 1618033988749894848204586834365638 (-33) := by decide

/-- the coefficients have exactly 34 digits (the values are canonical members of their cohorts) -/
theorem constants_34_digits :
    10 ^ 33 ≤ 2718281828459045235360287471352662 ∧ 2718281828459045235360287471352662 < 10 ^ 34 ∧
    10 ^ 33 ≤ 3141592653589793238462643383279503 ∧ 3141592653589793238462643383279503 < 10 ^ 34 ∧
    10 ^ 33 ≤ 1618033988749894848204586834365638 ∧ 1618033988749894848204586834365638 < 10 ^ 34 := by
  decide

/-- `E` is Euler's number rounded to nearest at 34 digits (one unit of the last digit is `10^-33`, the
    error is below half of it; strictly, so the nearest 34-digit decimal is unique) -/
theorem E_correctly_rounded :
    Spec.interp Gen.E.lo Gen.E.hi = .fin false 2718281828459045235360287471352662 (-33) ∧
    |Real.exp 1 - (2718281828459045235360287471352662 : ℝ) / 10 ^ 33| < 1 / (2 * 10 ^ 33) :=
  ⟨E_value, exp_one_near⟩

/-- `Pi` is π rounded to nearest at 34 digits -/
theorem Pi_correctly_rounded :
    Spec.interp Gen.Pi.lo Gen.Pi.hi = .fin false 3141592653589793238462643383279503 (-33) ∧
    |Real.pi - (3141592653589793238462643383279503 : ℝ) / 10 ^ 33| < 1 / (2 * 10 ^ 33) :=
  ⟨Pi_value, pi_near⟩

/-- `Phi` is the golden ratio `(1+√5)/2` rounded to nearest at 34 digits -/
theorem Phi_correctly_rounded :
    Spec.interp Gen.Phi.lo Gen.Phi.hi = .fin false 1618033988749894848204586834365638 (-33) ∧
    |(1 + Real.sqrt 5) / 2 - (1618033988749894848204586834365638 : ℝ) / 10 ^ 33| < 1 / (2 * 10 ^ 33) :=
  ⟨Phi_value, phi_near⟩

/-- the same for `Phi` as an exact integer inequality: with `c` the coefficient, `c − ½ < φ·10^33 < c + ½`,
    i.e. `2c − 1 − 10^33 < √5·10^33 < 2c + 1 − 10^33`, squared. -/
theorem Phi_correctly_rounded_int :
    (2 * 1618033988749894848204586834365638 - 1 - 10 ^ 33) ^ 2 < 5 * 10 ^ 66 ∧
    5 * 10 ^ 66 < (2 * 1618033988749894848204586834365638 + 1 - 10 ^ 33) ^ 2 := by decide

/-! ## headline -/

/-- None of the remaining `String` methods can panic: for every argument the model returns or stops at a call
    of `fmt`/`strconv`; the multi-word integer printers return for every input. -/
theorem strings_total :
    (∀ rm : UInt8, NoGoPanic (Gen.RoundingMode.String rm)) ∧
    (∀ p : UInt64, ∃ s, Gen.Payload.argString p 8 = .ok s) ∧
    (∀ p : UInt64, ∃ s, Gen.Payload.argString p 16 = .ok s) ∧
    (∀ p : UInt64, NoGoPanic (Gen.Payload.String p)) ∧
    (∀ n : U128, ∃ s, Gen.U128.String n = .ok s) ∧
    (∀ n : U192, ∃ s, Gen.U192.String n = .ok s) ∧
    (∀ n : U256, ∃ s, Gen.U256.String n = .ok s) ∧
    (∀ n : U384, ∃ s, Gen.U384.String n = .ok s) ∧
    (∀ d : Gen.decomposed192, NoGoPanic (Gen.decomposed192.String d)) := by
  refine ⟨?_, fun p => ⟨_, argString_8 p⟩, fun p => ⟨_, argString_16 p⟩, ?_,
    fun n => ⟨_, U128_String n⟩, fun n => ⟨_, U192_String n⟩, fun n => ⟨_, U256_String n⟩,
    fun n => ⟨_, U384_String n⟩, fun d => Or.inr ⟨_, decomposed192_String d⟩⟩
  · intro rm
    rw [RoundingMode_String]
    cases modeName rm with
    | none => exact Or.inr ⟨_, rfl⟩
    | some s => exact Or.inl ⟨_, rfl⟩
  · intro p
    rw [Payload_String]
    cases payloadText p with
    | none => exact Or.inr ⟨_, rfl⟩
    | some s => exact Or.inl ⟨_, rfl⟩

/-- in particular: never `panic("…")`, never an index, slice, shift or division panic -/
theorem strings_never_explicit (msg : String) :
    (∀ rm : UInt8, Gen.RoundingMode.String rm ≠ .error (.explicit msg)) ∧
    (∀ p : UInt64, Gen.Payload.String p ≠ .error (.explicit msg)) ∧
    (∀ d : Gen.decomposed192, Gen.decomposed192.String d ≠ .error (.explicit msg)) :=
  ⟨fun rm => (strings_total.1 rm).not_explicit msg,
   fun p => (strings_total.2.2.2.1 p).not_explicit msg,
   fun d => (strings_total.2.2.2.2.2.2.2.2 d).not_explicit msg⟩

end Props.C20d
