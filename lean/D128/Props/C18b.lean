/-
  Property C18, second part: the rest of the exact / shortcut ladder of `x.PowWithMode(y, m)`
  (woodsbury/decimal128, /repo/arith.go), beyond the cases (a)–(d) of D128/Props/C18.lean.

  Statements about the generated `Gen.Decimal.PowWithMode` over 𝔳[d] = `Spec.interp d.lo d.hi`, for ALL bit
  patterns with the stated values and EVERY mode byte; each theorem shows that the call does not panic.
  Against `Spec.powSpecial` (D128/Spec/Elem.lean) where it covers the case, and directly (value as ℚ)
  otherwise.  Proofs assemble lemmas of `D128/Proofs/PowLadder*.lean`.

  1. `pow_exp_inf`, `pow_exp_inf_fin`, `pow_exp_inf_inf`
                               y = ±Inf: the `math.Pow` table by |x| ⋚ 1 (x = ±0, ±Inf, finite; |x| = 1 is C18 (b))
  2. `parity_test_correct`     `Spec.intParity` (= the code's strip-and-test-last-digit) decides "y is an
                               integer" and its parity, for every coefficient/exponent pair of a Decimal
     `pow_zero_base`           x = ±0,  finite y: ±Inf (y < 0) / ±0 (y > 0), sign = x < 0 ∧ y odd integer
     `pow_inf_base`            x = ±Inf, finite y: ±0 (y < 0) / ±Inf (y > 0), same sign rule
  3. `pow_neg_base_nonint`     finite x < 0, y not an integer: NaN(Pow, −finite, ±finite)
     `pow_neg_base_int_partial` finite x < 0, y an integer: the sign (−1)^y reaches every continuation
  4. `pow_ten_int`             x = ±10^K (any cohort member), y = Y ∈ ℕ (any encoding), Y ≥ 2:
                               the result denotes `flushOrRoundS m neg 1 (K·Y)`, neg = x < 0 ∧ Y odd
     `pow_ten_int_exact`       … = 10^(K·Y) exactly for Emin ≤ K·Y ≤ Emax + 34 (every valid mode)
     `pow_ten_int_overflow`    … = ±Inf for K·Y ≥ 6146  (never for a representable 10^(K·Y))
     `pow_ten_int_underflow`   … = ±0 for K·Y ≤ −6178   (never for a representable 10^(K·Y))
     `pow_ten_int_spec`        agreement with `Spec.powSpecial` where it covers the case (y given with a
                               non-negative exponent).  (These proofs found that `Spec.powSpecial` used to
                               prescribe an infinity at K·Y = −6177, e.g. 0.1^6177; the specification was
                               corrected to `flushOrRoundS m neg 1 (K·Y)` and no exclusion remains.)
  5. `pow_ten_half`            x = +10^K, K even, y = ±1/2 (any encodings): exactly 10^(±K/2), as `Spec.powSpecial` says
     `pow_result_sign_of_rcpRange`, `pow_neg_base_int_of_rcpRange`
                               finite non-zero x, finite y ∉ {0, ±1}, not (x < 0 ∧ y ∉ ℤ): EVERY result —
                               shortcuts and general path, every mode byte — has the sign x < 0 ∧ y odd
                               integer and is not NaN; the general path through `rcp` needs `PowPf.RcpRange`
     `pow_finite_never_nan_of_rcpRange`
                               finite x, y never give NaN except negative x with non-integer y
  6. `pow_special_correct`     ALL of the above and C18 (a)–(d) in one statement: whatever `Spec.powSpecial`
                               prescribes is what `PowWithMode` returns (valid mode byte, no exclusion)
-/
import D128.Props.C18
import D128.Props.C02Quo
import D128.Proofs.PowLadderAll
import D128.Proofs.PowLadderSign
set_option autoImplicit false

namespace Props.C18b
open PowPf

/-- the value a bit pattern denotes -/
local notation "𝔳[" d "]" => Spec.interp (Gen.Decimal.lo d) (Gen.Decimal.hi d)

/-! ## 1. y = ±Inf -/

/-- `x^(±Inf)` for every x that is neither NaN nor of magnitude 1: `+Inf` when (|x| > 1) ≠ (y < 0),
    otherwise `+0` (`PowPf.infTable`); |x| > 1 is `PowPf.absGtOne` (`1 < Spec.mag c e`, true for ±Inf,
    false for ±0).  The specification prescribes the same. -/
theorem pow_exp_inf (d o : Gen.Decimal) (rm : UInt8) (m : Spec.Mode) (yn : Bool)
    (hy : 𝔳[o] = .inf yn) (hd : (𝔳[d]).isNaN = false) (h1 : absOne 𝔳[d] = false) :
    Gen.Decimal.PowWithMode d o rm =
      .ok (if (absGtOne 𝔳[d] != yn) = true then Gen.inf false else Gen.zero false) ∧
    ∃ w, Spec.powSpecial m 𝔳[d] 𝔳[o] = some w ∧
      (𝔳[if (absGtOne 𝔳[d] != yn) = true then Gen.inf false else Gen.zero false]).same w = true := by
  obtain ⟨e1, e2⟩ := top_yinf d o rm m yn hy hd h1
  exact ⟨e1, _, e2, interp_infTable _ _⟩

/-- the same for a finite x in terms of its magnitude: `+Inf` when (|x| > 1) ≠ (y < 0), else `+0`
    (x = ±0 included: |x| = 0 < 1) -/
theorem pow_exp_inf_fin (d o : Gen.Decimal) (rm : UInt8) (yn xn : Bool) (xc : Nat) (xe : Int)
    (hy : 𝔳[o] = .inf yn) (hx : 𝔳[d] = .fin xn xc xe) (h1 : Spec.mag xc xe ≠ 1) :
    Gen.Decimal.PowWithMode d o rm =
      .ok (if (decide (1 < Spec.mag xc xe) != yn) = true then Gen.inf false else Gen.zero false) := by
  have := (pow_exp_inf d o rm .nearestEven yn hy (by rw [hx]; rfl)
    (by rw [hx]; exact absOne_of_mag _ _ _ h1)).1
  rw [hx] at this; exact this

/-- … and for x = ±Inf: `(±Inf)^(+Inf) = +Inf`, `(±Inf)^(−Inf) = +0` -/
theorem pow_exp_inf_inf (d o : Gen.Decimal) (rm : UInt8) (yn xn : Bool)
    (hy : 𝔳[o] = .inf yn) (hx : 𝔳[d] = .inf xn) :
    Gen.Decimal.PowWithMode d o rm = .ok (if yn = true then Gen.zero false else Gen.inf false) := by
  have := (pow_exp_inf d o rm .nearestEven yn hy (by rw [hx]; rfl) (by rw [hx]; rfl)).1
  rw [hx] at this
  cases yn <;> exact this

/-- hypotheses of `pow_exp_inf_fin`: 2^(+Inf), (−0.5)^(−Inf) -/
example := pow_exp_inf_fin ⟨2, 3476778912330022912⟩ ⟨0, 8646911284551352320⟩ 0 false false 2 0
    (by decide) (by decide) (by rw [Spec.mag, SpecRound.pow10_eq_zpow]; norm_num)
example := pow_exp_inf_fin ⟨5, 12699587999231377408⟩ ⟨0, 17870283321406128128⟩ 0 true true 5 (-1)
    (by decide) (by decide) (by rw [Spec.mag, SpecRound.pow10_eq_zpow]; norm_num)

/-! ## 2. x = ±0 and x = ±Inf with a finite y; the parity test -/

/-- the parity test (`Spec.intParity`, which the code's "strip trailing zeros, test the last digit" is
    proved equal to in `PowPf.signOf_eq`) is right for every y of any encoding: it answers `none`
    exactly when c·10^e is not an integer, and otherwise whether that integer is odd -/
theorem parity_test_correct (c : Nat) (e : Int) (hc0 : c ≠ 0) (hc : c ≤ Spec.Cmax) :
    Spec.intParity c e =
      if isIntQ (Spec.mag c e) = true then some (oddIntQ (Spec.mag c e)) else none :=
  intParity_math c e hc0 (lt_of_le_of_lt hc Cmax_lt_41)

/-- `(±0)^y` for a finite y ∉ {0, ±1}: an infinity for y < 0, a zero for y > 0; negative exactly when
    x = −0 and y is an odd integer -/
theorem pow_zero_base (d o : Gen.Decimal) (rm : UInt8) (m : Spec.Mode) (xn : Bool) (xe : Int) (yn : Bool)
    (yc : Nat) (ye : Int) (hx : 𝔳[d] = .fin xn 0 xe) (hy : 𝔳[o] = .fin yn yc ye) (hy0 : yc ≠ 0)
    (hy1 : Spec.mag yc ye ≠ 1) :
    ∃ r w, Gen.Decimal.PowWithMode d o rm = .ok r ∧ Spec.powSpecial m 𝔳[d] 𝔳[o] = some w ∧
      (𝔳[r]).same w = true ∧
      w = (if yn = true then .inf (xn && oddIntQ (Spec.mag yc ye))
           else .fin (xn && oddIntQ (Spec.mag yc ye)) 0 0) := by
  obtain ⟨e1, e2⟩ := top_xzero d o rm m xn xe yn yc ye hx hy hy0 hy1
  refine ⟨_, _, e1, e2, ?_, rfl⟩
  cases yn
  · simp only [Bool.false_eq_true, if_false, Enc.interp_zero]; exact Sp.same_zero _ _ _
  · simp only [if_true, Enc.interp_inf]; exact Sp.same_refl _

/-- (−0)^(−3) = −Inf: hypotheses of `pow_zero_base` on x = −0, y = −30e-1 -/
example :=
  pow_zero_base ⟨0, 12700150949184798720⟩ ⟨30, 12699587999231377408⟩ 0 .nearestEven true 0 true 30 (-1)
    (by decide) (by decide) (by decide) (by rw [Spec.mag, SpecRound.pow10_eq_zpow]; norm_num)

/-- `(±Inf)^y` for a finite y ∉ {0, ±1}: a zero for y < 0, an infinity for y > 0; negative exactly when
    x = −Inf and y is an odd integer -/
theorem pow_inf_base (d o : Gen.Decimal) (rm : UInt8) (m : Spec.Mode) (xn : Bool) (yn : Bool)
    (yc : Nat) (ye : Int) (hx : 𝔳[d] = .inf xn) (hy : 𝔳[o] = .fin yn yc ye) (hy0 : yc ≠ 0)
    (hy1 : Spec.mag yc ye ≠ 1) :
    ∃ r w, Gen.Decimal.PowWithMode d o rm = .ok r ∧ Spec.powSpecial m 𝔳[d] 𝔳[o] = some w ∧
      (𝔳[r]).same w = true ∧
      w = (if yn = true then .fin (xn && oddIntQ (Spec.mag yc ye)) 0 0
           else .inf (xn && oddIntQ (Spec.mag yc ye))) := by
  obtain ⟨e1, e2⟩ := top_xinf d o rm m xn yn yc ye hx hy hy0 hy1
  refine ⟨_, _, e1, e2, ?_, rfl⟩
  cases yn
  · simp only [Bool.false_eq_true, if_false, Enc.interp_inf]; exact Sp.same_refl _
  · simp only [if_true, Enc.interp_zero]; exact Sp.same_zero _ _ _

/-- (−Inf)^(300e-2) = −Inf: hypotheses of `pow_inf_base` -/
example :=
  pow_inf_base ⟨0, 17870283321406128128⟩ ⟨300, 3475653012423180288⟩ 0 .nearestEven true false 300 (-2)
    (by decide) (by decide) (by decide) (by rw [Spec.mag, SpecRound.pow10_eq_zpow]; norm_num)

/-! ## 3. negative finite x -/

/-- finite x < 0 and a finite y that is not an integer: the NaN with payload (Pow, −finite, ±finite),
    which is `Spec.invalid2 .pow x y` -/
theorem pow_neg_base_nonint (d o : Gen.Decimal) (rm : UInt8) (m : Spec.Mode) (xc : Nat) (xe : Int)
    (yn : Bool) (yc : Nat) (ye : Int) (hx : 𝔳[d] = .fin true xc xe) (hx0 : xc ≠ 0)
    (hy : 𝔳[o] = .fin yn yc ye) (hy0 : yc ≠ 0) (hni : isIntQ (Spec.mag yc ye) = false) :
    Gen.Decimal.PowWithMode d o rm = .ok (Gen.nan 15 4 (if yn = true then 4 else 3)) ∧
    Spec.powSpecial m 𝔳[d] 𝔳[o] = some (Spec.invalid2 .pow 𝔳[d] 𝔳[o]) ∧
    𝔳[Gen.nan 15 4 (if yn = true then 4 else 3)] = Spec.invalid2 .pow 𝔳[d] 𝔳[o] :=
  top_negnan d o rm m xc xe yn yc ye hx hx0 hy hy0 hni

/-- (−10)^(0.5) = NaN(Pow, −finite, +finite): hypotheses of `pow_neg_base_nonint` -/
example := pow_neg_base_nonint ⟨1, 12700713899138220032⟩ ⟨5, 3476215962376601600⟩ 0 .nearestEven 1 1 false 5 (-1)
    (by decide) (by decide) (by decide) (by decide)
    (by have := mag_strip 5 0 (-1)
        rw [show 5 * 10 ^ 0 = 5 by norm_num] at this
        rw [this, isIntQ_strip 5 _ (by norm_num)]; rfl)

/-- finite x < 0 and an integer y ∉ {0, ±1}: the ladder decides the sign `(−1)^y` (negative iff y is odd)
    and hands it to every continuation (`PowPf.finish`: power-of-ten shortcut — completed in
    `pow_ten_int` —, square-root shortcut, general path).
    PARTIAL: not shown here that the general path (`log → mul → epow → rcp → reduce192`) returns a value of
    exactly this sign; that needs the range facts of `reduce192` there (all its `return`s use `neg`). -/
theorem pow_neg_base_int_partial (d o : Gen.Decimal) (rm : UInt8) (xc : Nat) (xe : Int) (yn : Bool)
    (yc : Nat) (ye : Int) (hx : 𝔳[d] = .fin true xc xe) (hx0 : xc ≠ 0) (hy : 𝔳[o] = .fin yn yc ye)
    (hy0 : yc ≠ 0) (hy1 : Spec.mag yc ye ≠ 1) (hint : isIntQ (Spec.mag yc ye) = true) :
    ∃ oSig oExp dSig dExp, Gen.Decimal.PowWithMode d o rm =
      PowPf.finish rm true yn (oddIntQ (Spec.mag yc ye)) oSig oExp dSig dExp :=
  top_negint_partial d o rm xc xe yn yc ye hx hx0 hy hy0 hy1 hint

/-- The sign of the result for finite non-zero x and finite y ∉ {0, ±1} (excluding x < 0 with y ∉ ℤ, which
    gives NaN): EVERY value `PowWithMode` returns — through the power-of-ten shortcut, the square-root
    shortcut or the general path `log → mul → epow → (rcp) → reduce192 → compose`, for every mode byte —
    has sign bit `x < 0 ∧ y odd integer` and is not a NaN.  (Statement about returned values: that the
    general path returns at all is the totality property C20.)
    Proof without any accuracy analysis: `compose neg sig exp` is sign-faithful for every `sig` once
    `0 ≤ exp ≤ 12287` (`PowPf.compose_sign_any`), `reduce192` returns `0 ≤ exp'` for every mode byte
    (`PowPf.reduce192_range`), `epow` returns a non-zero significand (`PowPf.epow_sig_ne`).
    OPEN OBLIGATION `hrcp : PowPf.RcpRange` ("the reciprocal of an `epow` result has a non-zero significand
    and an exponent ≤ 13824"; true because an `epow` result is ≥ 1): no contract of `decomposed192.rcp` /
    `epow` exists yet; it is used only on the branch that takes the reciprocal
    (`PowPf.general_sign_norcp` is the unconditional statement for the other branch). -/
theorem pow_result_sign_of_rcpRange (d o : Gen.Decimal) (rm : UInt8) (xn : Bool) (xc : Nat) (xe : Int)
    (yn : Bool) (yc : Nat) (ye : Int) (r : Gen.Decimal) (hrcp : PowPf.RcpRange)
    (hx : 𝔳[d] = .fin xn xc xe) (hx0 : xc ≠ 0) (hy : 𝔳[o] = .fin yn yc ye) (hy0 : yc ≠ 0)
    (hy1 : Spec.mag yc ye ≠ 1) (hint : xn = false ∨ isIntQ (Spec.mag yc ye) = true)
    (h : Gen.Decimal.PowWithMode d o rm = .ok r) :
    Gen.Decimal.Signbit r = (xn && oddIntQ (Spec.mag yc ye)) ∧ Gen.Decimal.IsNaN r = false :=
  top_fin_sign d o rm xn xc xe yn yc ye r hrcp hx hx0 hy hy0 hy1 hint h

/-- negative finite x with an integer y ∉ {0, ±1}: the sign of every result is `(−1)^y` -/
theorem pow_neg_base_int_of_rcpRange (d o : Gen.Decimal) (rm : UInt8) (xc : Nat) (xe : Int)
    (yn : Bool) (yc : Nat) (ye : Int) (r : Gen.Decimal) (hrcp : PowPf.RcpRange)
    (hx : 𝔳[d] = .fin true xc xe) (hx0 : xc ≠ 0) (hy : 𝔳[o] = .fin yn yc ye) (hy0 : yc ≠ 0)
    (hy1 : Spec.mag yc ye ≠ 1) (hint : isIntQ (Spec.mag yc ye) = true)
    (h : Gen.Decimal.PowWithMode d o rm = .ok r) :
    Gen.Decimal.Signbit r = oddIntQ (Spec.mag yc ye) ∧ Gen.Decimal.IsNaN r = false := by
  have := pow_result_sign_of_rcpRange d o rm true xc xe yn yc ye r hrcp hx hx0 hy hy0 hy1 (Or.inr hint) h
  simpa using this

/-- finite x and y never give a NaN, except negative non-zero x with a non-integer y (which gives the
    NaN of `pow_neg_base_nonint`): every value returned for a valid mode byte is not a NaN.
    (y = −1 goes through the division theorem `Props.C02.quo_correct`; `hrcp` as above.) -/
theorem pow_finite_never_nan_of_rcpRange (d o : Gen.Decimal) (rm : UInt8) (m : Spec.Mode) (xn : Bool)
    (xc : Nat) (xe : Int) (yn : Bool) (yc : Nat) (ye : Int) (r : Gen.Decimal) (hrcp : PowPf.RcpRange)
    (hm : Spec.Mode.ofNat? rm.toNat = some m)
    (hx : 𝔳[d] = .fin xn xc xe) (hy : 𝔳[o] = .fin yn yc ye)
    (hexc : ¬ (xn = true ∧ xc ≠ 0 ∧ yc ≠ 0 ∧ isIntQ (Spec.mag yc ye) = false))
    (h : Gen.Decimal.PowWithMode d o rm = .ok r) : Gen.Decimal.IsNaN r = false :=
  top_fin_not_nan d o rm m xn xc xe yn yc ye r hrcp (Props.C02.quo_correct (Gen.one false) d rm m hm)
    hx hy hexc h

/-- hypotheses of `pow_result_sign_of_rcpRange` (apart from the open obligation): x = −3, y = 5 -/
example (hrcp : PowPf.RcpRange) (r : Gen.Decimal)
    (h : Gen.Decimal.PowWithMode ⟨3, 12700150949184798720⟩ ⟨5, 3476778912330022912⟩ 0 = .ok r) :=
  pow_result_sign_of_rcpRange ⟨3, 12700150949184798720⟩ ⟨5, 3476778912330022912⟩ 0 true 3 0 false 5 0 r hrcp
    (by decide) (by decide) (by decide) (by decide) (by rw [Spec.mag, SpecRound.pow10_eq_zpow]; norm_num)
    (Or.inr (by
      have := mag_strip 5 0 0
      rw [show 5 * 10 ^ 0 = 5 by norm_num] at this
      rw [this, isIntQ_strip 5 _ (by norm_num)]; rfl)) h

/-! ## 4. x a power of ten, y a non-negative integer -/

/-- x = ±10^K given as coefficient 10^a with exponent xe (K = a + xe; any member of the cohort), y the
    natural number Y ≥ 2 in any encoding (`Spec.mag yc ye = Y`): for every mode byte the call does not
    panic, and for a valid mode byte the result denotes `Spec.flushOrRoundS m neg 1 (K·Y)` — the exact
    10^(K·Y) wherever it is a member of the format, the m-rounding below `Emin`, the signed zero below
    10^(Emin−1), the signed infinity above the range — with neg = (x < 0 ∧ Y odd).
    (Y = 0 is C18 (a), Y = 1 is C18 (c).) -/
theorem pow_ten_int (d o : Gen.Decimal) (rm : UInt8) (xn : Bool) (a : Nat) (xe : Int) (yc : Nat) (ye : Int)
    (Y : Nat) (hx : 𝔳[d] = .fin xn (10 ^ a) xe) (hy : 𝔳[o] = .fin false yc ye)
    (hY : Spec.mag yc ye = (Y : Rat)) (hY2 : 2 ≤ Y) :
    ∃ r, Gen.Decimal.PowWithMode d o rm = .ok r ∧
      ∀ m, Spec.Mode.ofNat? rm.toNat = some m →
        (𝔳[r]).same (Spec.flushOrRoundS m (xn && decide (Y % 2 = 1)) 1 (((a : Int) + xe) * (Y : Int))) = true := by
  by_cases hx1 : xn = true ∨ (a : Int) + xe ≠ 0
  · exact top_pow10 d o rm xn a xe yc ye Y hx hy hY hY2 hx1
  · -- x = +1
    have hn : xn = false := by cases xn <;> simp_all
    have hk : (a : Int) + xe = 0 := by
      by_contra h; exact hx1 (Or.inr h)
    subst hn
    have hyz : (𝔳[o]).isZero = false := by
      rw [hy, Enc.isZero_fin]
      have : yc ≠ 0 := by
        intro h; rw [h, Sp.mag_zero] at hY
        have : (Y : Rat) = 0 := hY.symm
        have : Y = 0 := by exact_mod_cast this
        omega
      simpa using this
    have hm1 : Spec.mag (10 ^ a) xe = 1 := by
      have := mag_strip 1 a xe
      rw [one_mul] at this
      rw [this, add_comm, hk]; simp
    obtain ⟨e1, e2, -⟩ := Props.C18.pow_base_one d o rm .nearestEven false (10 ^ a) xe hyz hx hm1 (Or.inl rfl)
    refine ⟨_, e1, fun m _ => ?_⟩
    rw [e2, hk, zero_mul, Bool.false_and, NL.same_symm]
    exact flush_pow10_exact m false 0 (by omega) (by omega)

/-- hypotheses of `pow_ten_int`: x = −10 as 1e1, y = 30 as 3e1 -/
example := pow_ten_int ⟨1, 12700713899138220032⟩ ⟨3, 3477341862283444224⟩ 0 true 0 1 3 1 30
    (by decide) (by decide) (by rw [Spec.mag, SpecRound.pow10_eq_zpow]; norm_num) (by norm_num)
/-- … and x = 10^34·10^-33 (= 10, coefficient with 34 zeros), y = 6145 -/
example := pow_ten_int ⟨4003012203950112768, 3458743664953362368⟩ ⟨6145, 3476778912330022912⟩ 0 false 34 (-33)
    6145 0 6145 (by decide) (by decide) (by rw [Spec.mag, SpecRound.pow10_eq_zpow]; norm_num) (by norm_num)

/-- in the range of the format the result is exactly 10^(K·Y) -/
theorem pow_ten_int_exact (d o : Gen.Decimal) (rm : UInt8) (m : Spec.Mode) (xn : Bool) (a : Nat) (xe : Int)
    (yc : Nat) (ye : Int) (Y : Nat) (hm : Spec.Mode.ofNat? rm.toNat = some m)
    (hx : 𝔳[d] = .fin xn (10 ^ a) xe) (hy : 𝔳[o] = .fin false yc ye)
    (hY : Spec.mag yc ye = (Y : Rat)) (hY2 : 2 ≤ Y)
    (h1 : -6176 ≤ ((a : Int) + xe) * (Y : Int)) (h2 : ((a : Int) + xe) * (Y : Int) ≤ 6145) :
    ∃ r, Gen.Decimal.PowWithMode d o rm = .ok r ∧
      (𝔳[r]).same (.fin (xn && decide (Y % 2 = 1)) 1 (((a : Int) + xe) * (Y : Int))) = true := by
  obtain ⟨r, hr, hv⟩ := pow_ten_int d o rm xn a xe yc ye Y hx hy hY hY2
  exact ⟨r, hr, NL.same_trans (hv m hm) (flush_pow10_exact m _ _ h1 h2)⟩

/-- above the range (10^(K·Y) ≥ 10^6146 > the largest Decimal) the result is the signed infinity; by
    `pow_ten_int_exact` it is never an infinity when 10^(K·Y) is representable -/
theorem pow_ten_int_overflow (d o : Gen.Decimal) (rm : UInt8) (m : Spec.Mode) (xn : Bool) (a : Nat) (xe : Int)
    (yc : Nat) (ye : Int) (Y : Nat) (hm : Spec.Mode.ofNat? rm.toNat = some m)
    (hx : 𝔳[d] = .fin xn (10 ^ a) xe) (hy : 𝔳[o] = .fin false yc ye)
    (hY : Spec.mag yc ye = (Y : Rat)) (hY2 : 2 ≤ Y)
    (h1 : 6146 ≤ ((a : Int) + xe) * (Y : Int)) :
    ∃ r, Gen.Decimal.PowWithMode d o rm = .ok r ∧ 𝔳[r] = .inf (xn && decide (Y % 2 = 1)) := by
  obtain ⟨r, hr, hv⟩ := pow_ten_int d o rm xn a xe yc ye Y hx hy hY hY2
  refine ⟨r, hr, ?_⟩
  have := hv m hm
  rw [flush_pow10_huge m _ _ h1] at this
  cases hr' : 𝔳[r] <;> rw [hr'] at this <;> simp [Spec.Val.same] at this
  rw [this]

/-- below 10^(Emin−1) the result is the signed zero -/
theorem pow_ten_int_underflow (d o : Gen.Decimal) (rm : UInt8) (m : Spec.Mode) (xn : Bool) (a : Nat) (xe : Int)
    (yc : Nat) (ye : Int) (Y : Nat) (hm : Spec.Mode.ofNat? rm.toNat = some m)
    (hx : 𝔳[d] = .fin xn (10 ^ a) xe) (hy : 𝔳[o] = .fin false yc ye)
    (hY : Spec.mag yc ye = (Y : Rat)) (hY2 : 2 ≤ Y)
    (h1 : ((a : Int) + xe) * (Y : Int) ≤ -6178) :
    ∃ r, Gen.Decimal.PowWithMode d o rm = .ok r ∧
      (𝔳[r]).same (.fin (xn && decide (Y % 2 = 1)) 0 0) = true := by
  obtain ⟨r, hr, hv⟩ := pow_ten_int d o rm xn a xe yc ye Y hx hy hY hY2
  refine ⟨r, hr, ?_⟩
  have := hv m hm
  rw [flush_pow10_tiny m _ _ h1] at this
  exact NL.same_trans this (Sp.same_zero _ _ _)

/-- agreement with `Spec.powSpecial` wherever it covers the case (y given with a non-negative exponent):
    it prescribes the value the code returns (K·Y = Emin − 1 = −6177 included: the m-rounding of 10^-6177,
    0 or 1e-6176) -/
theorem pow_ten_int_spec (d o : Gen.Decimal) (rm : UInt8) (m : Spec.Mode) (xn : Bool) (a : Nat) (xe : Int)
    (yc : Nat) (ye : Int) (Y : Nat) (hm : Spec.Mode.ofNat? rm.toNat = some m)
    (hx : 𝔳[d] = .fin xn (10 ^ a) xe) (hy : 𝔳[o] = .fin false yc ye)
    (hY : Spec.mag yc ye = (Y : Rat)) (hY2 : 2 ≤ Y) (hye : 0 ≤ ye) :
    ∃ r w, Gen.Decimal.PowWithMode d o rm = .ok r ∧ Spec.powSpecial m 𝔳[d] 𝔳[o] = some w ∧
      (𝔳[r]).same w = true := by
  obtain ⟨r, hr, hv⟩ := pow_ten_int d o rm xn a xe yc ye Y hx hy hY hY2
  by_cases hx1 : xn = true ∨ (a : Int) + xe ≠ 0
  · obtain ⟨w, hw, hs⟩ := top_pow10_spec d o m xn a xe yc ye Y hx hy hY hY2 hx1 hye
    refine ⟨r, w, hr, hw, ?_⟩
    rw [NL.same_symm] at hs
    exact NL.same_trans (hv m hm) hs
  · -- x = +1
    have hn : xn = false := by cases xn <;> simp_all
    have hk : (a : Int) + xe = 0 := by
      by_contra h; exact hx1 (Or.inr h)
    subst hn
    have hyz : (𝔳[o]).isZero = false := by
      rw [hy, Enc.isZero_fin]
      have : yc ≠ 0 := by
        intro h; rw [h, Sp.mag_zero] at hY
        have : (Y : Rat) = 0 := hY.symm
        have : Y = 0 := by exact_mod_cast this
        omega
      simpa using this
    have hm1 : Spec.mag (10 ^ a) xe = 1 := by
      have := mag_strip 1 a xe
      rw [one_mul] at this
      rw [this, add_comm, hk]; simp
    obtain ⟨e1, e2, e3⟩ := Props.C18.pow_base_one d o rm m false (10 ^ a) xe hyz hx hm1 (Or.inl rfl)
    refine ⟨_, _, e1, e3, ?_⟩
    rw [e2]; exact Sp.same_refl _

/-! ## 5. x an even power of ten, y = ±1/2 -/

/-- x = +10^K (coefficient 10^a, exponent xe, K = a + xe even; any member of the cohort) and y = ±1/2 in
    any encoding (5e-1, 50e-2, …): the result is exactly 10^(K/2) resp. 10^(−K/2), with coefficient 1, for
    every mode byte, and `Spec.powSpecial` prescribes this value -/
theorem pow_ten_half (d o : Gen.Decimal) (rm : UInt8) (m : Spec.Mode) (a : Nat) (xe : Int) (yn : Bool)
    (yc : Nat) (ye : Int) (hx : 𝔳[d] = .fin false (10 ^ a) xe) (hy : 𝔳[o] = .fin yn yc ye)
    (hY : Spec.mag yc ye = 1 / 2) (hev : ((a : Int) + xe) % 2 = 0) :
    ∃ r w, Gen.Decimal.PowWithMode d o rm = .ok r ∧
      𝔳[r] = .fin false 1 (if yn = true then -(((a : Int) + xe) / 2) else ((a : Int) + xe) / 2) ∧
      Spec.powSpecial m 𝔳[d] 𝔳[o] = some w ∧ (𝔳[r]).same w = true := by
  by_cases hx1 : (a : Int) + xe ≠ 0
  · obtain ⟨r, hr, hv⟩ := top_half d o rm a xe yn yc ye hx hy hY hev hx1
    obtain ⟨w, hw, hs⟩ := top_half_spec d o m a xe yn yc ye hx hy hY hev hx1
    refine ⟨r, w, hr, hv, hw, ?_⟩
    rw [hv, NL.same_symm]; exact hs
  · -- x = +1
    have hk : (a : Int) + xe = 0 := by
      by_contra h; exact hx1 h
    have hyz : (𝔳[o]).isZero = false := by
      rw [hy, Enc.isZero_fin]
      have : yc ≠ 0 := by
        intro h; rw [h, Sp.mag_zero] at hY; norm_num at hY
      simpa using this
    have hm1 : Spec.mag (10 ^ a) xe = 1 := by
      have := mag_strip 1 a xe
      rw [one_mul] at this
      rw [this, add_comm, hk]; simp
    obtain ⟨e1, e2, e3⟩ := Props.C18.pow_base_one d o rm m false (10 ^ a) xe hyz hx hm1 (Or.inl rfl)
    refine ⟨_, _, e1, ?_, e3, ?_⟩
    · rw [e2, hk]; cases yn <;> rfl
    · rw [e2]; exact Sp.same_refl _

/-- hypotheses of `pow_ten_half`: x = 100e2 (= 10^4), y = −50e-2 -/
example := pow_ten_half ⟨100, 3477904812236865536⟩ ⟨50, 12699025049277956096⟩ 0 .nearestEven 2 2 true 50 (-2)
    (by decide) (by decide) (by rw [Spec.mag, SpecRound.pow10_eq_zpow]; norm_num) (by norm_num)

/-! ## 6. everything `Spec.powSpecial` fixes, in one statement -/

/-- For all bit patterns d, o and every valid mode byte: if `Spec.powSpecial` fixes the result of
    `x.PowWithMode(y, m)` (y = ±0, x = +1, x = −1 with y = ±Inf, y = ±1, NaN operands, y = ±Inf, x = ±0,
    x = ±Inf, negative x with non-integer y, x a power of ten with y a non-negative integer given with a
    non-negative exponent or y = ±1/2 with x an even power), then the call does not panic and returns a
    Decimal denoting exactly that value.  No exclusion. -/
theorem pow_special_correct (d o : Gen.Decimal) (rm : UInt8) (m : Spec.Mode) (w : Spec.Val)
    (hm : Spec.Mode.ofNat? rm.toNat = some m) (hw : Spec.powSpecial m 𝔳[d] 𝔳[o] = some w) :
    ∃ r, Gen.Decimal.PowWithMode d o rm = .ok r ∧ (𝔳[r]).same w = true :=
  pow_special_all d o rm m w hm (Props.C02.quo_correct (Gen.one false) d rm m hm) hw

/-- hypotheses of `pow_special_correct`: (−Inf)^(−3) under ToNegativeInf -/
example : ∃ r, Gen.Decimal.PowWithMode ⟨0, 17870283321406128128⟩ ⟨3, 12700150949184798720⟩ 4 = .ok r ∧
    (𝔳[r]).same (.fin (true && oddIntQ (Spec.mag 3 0)) 0 0) = true := by
  have hx : 𝔳[(⟨0, 17870283321406128128⟩ : Gen.Decimal)] = .inf true := by decide
  have hy : 𝔳[(⟨3, 12700150949184798720⟩ : Gen.Decimal)] = .fin true 3 0 := by decide
  have h1 : Spec.mag 3 0 ≠ 1 := by rw [Spec.mag, SpecRound.pow10_eq_zpow]; norm_num
  obtain ⟨-, e2⟩ := top_xinf _ _ 4 .toNegInf true true 3 0 hx hy (by decide) h1
  exact pow_special_correct _ _ 4 .toNegInf _ rfl e2

end Props.C18b
