/-
  Property C01 — addition and subtraction are correctly rounded in all six rounding modes.
  Statements about the generated `Gen.Decimal.AddWithMode`, `Gen.Decimal.SubWithMode`, `Gen.Decimal.Add`,
  `Gen.Decimal.Sub` (translation of /repo/arith.go, including the unexported `Decimal.add`) against
  `Spec.add` / `Spec.sub` (D128/Spec/Arith.lean) over `Spec.interp d.lo d.hi`, for ALL 2^256 operand pairs
  (NaN, ±Inf, ±0, finite, any gap between the exponents) and every valid mode byte.  Each theorem also
  shows that the call terminates and does not panic.

  * `add_correct`   `AddWithMode d o rm` returns a Decimal denoting `Spec.add m 𝔳[d] 𝔳[o]`
  * `sub_correct`   `SubWithMode d o rm` returns a Decimal denoting `Spec.sub m 𝔳[d] 𝔳[o]`
  * `add_default`, `sub_default`   `Add g d o = AddWithMode d o g.DefaultRoundingMode`, same for `Sub`
  * `add_correct_default`, `sub_correct_default`  the corollaries for `Add`, `Sub`

  Proofs assemble `Props.C15.add_prologue` / `sub_prologue` (an operand is special or zero) and
  `AD.AddWithMode_finite` / `AD.SubWithMode_finite` (D128/Proofs/AddMain.lean: staging of the generated
  `add` in AddCode.lean, the alignment ladder in AddAlign*.lean, the epilogue against
  `reduce128_correct` / `reduce192_correct` in AddAlignTail.lean, the specification side in
  AddAlignSpec.lean).
-/
import D128.Props.C15
import D128.Proofs.AddMain
set_option autoImplicit false

namespace Props.C01

/-- the value a bit pattern denotes -/
local notation "𝔳[" d "]" => Spec.interp (Gen.Decimal.lo d) (Gen.Decimal.hi d)

/-- **C01, addition.**  For every pair of bit patterns and every valid rounding mode, `AddWithMode`
    returns (no panic, terminates) a Decimal that denotes the correctly rounded sum
    `Spec.add m 𝔳[d] 𝔳[o]`: NaN propagation / the invalid-operation payload of `Inf + -Inf`, ±Inf, signed
    zeros (an exact zero sum is `+0`, `-0` under `ToNegativeInf`), and for finite non-zero operands the
    member of the format mode `m` selects for the exact sum (±Inf on overflow). -/
theorem add_correct (d o : Gen.Decimal) (rm : UInt8) (m : Spec.Mode)
    (hm : Spec.Mode.ofNat? rm.toNat = some m) :
    ∃ r, Gen.Decimal.AddWithMode d o rm = .ok r ∧ (𝔳[r]).same (Spec.add m 𝔳[d] 𝔳[o]) = true := by
  cases hd : Gen.Decimal.isSpecial d
  · cases ho : Gen.Decimal.isSpecial o
    · cases zd : Gen.Decimal.IsZero d
      · cases zo : Gen.Decimal.IsZero o
        · exact AD.AddWithMode_finite d o rm m hm hd ho zd zo
        · exact Props.C15.add_prologue d o rm m (Or.inr (Or.inr (Or.inr zo)))
      · exact Props.C15.add_prologue d o rm m (Or.inr (Or.inr (Or.inl zd)))
    · exact Props.C15.add_prologue d o rm m (Or.inr (Or.inl ho))
  · exact Props.C15.add_prologue d o rm m (Or.inl hd)

/-- **C01, subtraction.**  The same for `SubWithMode` and the correctly rounded difference
    `Spec.sub m 𝔳[d] 𝔳[o]`. -/
theorem sub_correct (d o : Gen.Decimal) (rm : UInt8) (m : Spec.Mode)
    (hm : Spec.Mode.ofNat? rm.toNat = some m) :
    ∃ r, Gen.Decimal.SubWithMode d o rm = .ok r ∧ (𝔳[r]).same (Spec.sub m 𝔳[d] 𝔳[o]) = true := by
  cases hd : Gen.Decimal.isSpecial d
  · cases ho : Gen.Decimal.isSpecial o
    · cases zd : Gen.Decimal.IsZero d
      · cases zo : Gen.Decimal.IsZero o
        · exact AD.SubWithMode_finite d o rm m hm hd ho zd zo
        · exact Props.C15.sub_prologue d o rm m (Or.inr (Or.inr (Or.inr zo)))
      · exact Props.C15.sub_prologue d o rm m (Or.inr (Or.inr (Or.inl zd)))
    · exact Props.C15.sub_prologue d o rm m (Or.inr (Or.inl ho))
  · exact Props.C15.sub_prologue d o rm m (Or.inl hd)

/-- `Add` is `AddWithMode` at the package default rounding mode. -/
theorem add_default (g : Globals) (d o : Gen.Decimal) :
    Gen.Decimal.Add g d o = Gen.Decimal.AddWithMode d o g.DefaultRoundingMode :=
  Props.C15.add_eq_withMode g d o

/-- `Sub` is `SubWithMode` at the package default rounding mode. -/
theorem sub_default (g : Globals) (d o : Gen.Decimal) :
    Gen.Decimal.Sub g d o = Gen.Decimal.SubWithMode d o g.DefaultRoundingMode :=
  Props.C15.sub_eq_withMode g d o

theorem add_correct_default (g : Globals) (d o : Gen.Decimal) (m : Spec.Mode)
    (hm : Spec.Mode.ofNat? g.DefaultRoundingMode.toNat = some m) :
    ∃ r, Gen.Decimal.Add g d o = .ok r ∧ (𝔳[r]).same (Spec.add m 𝔳[d] 𝔳[o]) = true := by
  rw [add_default]; exact add_correct d o g.DefaultRoundingMode m hm

theorem sub_correct_default (g : Globals) (d o : Gen.Decimal) (m : Spec.Mode)
    (hm : Spec.Mode.ofNat? g.DefaultRoundingMode.toNat = some m) :
    ∃ r, Gen.Decimal.Sub g d o = .ok r ∧ (𝔳[r]).same (Spec.sub m 𝔳[d] 𝔳[o]) = true := by
  rw [sub_default]; exact sub_correct d o g.DefaultRoundingMode m hm

/-- the hypotheses are satisfiable on a non-trivial input: `1 - 3·10^-40` under `ToNearestAway`
    (mode byte 1; the exact difference lies just below 1, a 40-digit gap with a negative sticky) … -/
example := sub_correct (Gen.compose false ⟨1, 0⟩ 6176) (Gen.compose false ⟨3, 0⟩ 6136) 1 .nearestAway rfl

/-- … and `9999999999999999999999999999999999 + 5·10^-1` under `ToNearestEven` (a tie that carries) -/
example := add_correct (Gen.compose false ⟨4003012203950112767, 542101086242752⟩ 6176)
  (Gen.compose false ⟨5, 0⟩ 6175) 0 .nearestEven rfl

end Props.C01
