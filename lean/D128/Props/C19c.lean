/-
  Property C19, first clause, for `PowWithMode` on ALL operand pairs for which property C18 fixes the result
  exactly: NaN / ±Inf / ±0 operands, y = ±1, x = +1, negative x with a non-integer y, x a power of ten with y
  a natural number ≥ 2 or (x > 0, even power) y = ±1/2 — each of x, y in ANY encoding.

  * `PowExact x y`   the operand pairs covered, as a predicate on the denoted VALUES (`Val.abs`, `Val.neg`, class)
  * `powW m x y`     the exact result on those pairs, as a function of the denoted values
  * `pow_exact_value`   `PowExact 𝔳[d] 𝔳[o]` ⇒ `PowWithMode d o rm` returns (no panic) a Decimal denoting
                        `powW m 𝔳[d] 𝔳[o]` — one statement assembling the rungs of `Props.C18`, `Props.C18b`;
                        unlike `Spec.powSpecial` it has no dependence on the encoding of y (`Spec.powSpecial` answers
                        `some` for 10^(2e0) but `none` for 10^(20e-1))
  * `PowExact_congr`, `powW_congr`   both respect `Val.same`
  * `pow_encoding_independent_exact`  d ~ d', o ~ o', `PowExact 𝔳[d] 𝔳[o]` ⇒ both calls return Decimals with the
                        same class, sign, value (and NaN payload);  `pow_default_…` for `Pow`
  * `powExact_of_powSpecial`          `Spec.powSpecial m x y = some w` ⇒ `PowExact x y`
  * `pow_encoding_independent_table`  … hence: whenever the specification table decides ONE encoding pair, all
                        encodings of the same values give the same result — also those for which the table itself
                        answers `none`
  PARTIAL with respect to C19: the general finite case of `Pow` (log → mul → exp), for which only an error bound
  is specified, is not covered.
-/
import D128.Props.C19b
import D128.Props.C18b
set_option autoImplicit false

namespace Props.C19
open Cohort PowPf

/-- the value a bit pattern denotes -/
local notation "𝔳[" d "]" => Spec.interp (Gen.Decimal.lo d) (Gen.Decimal.hi d)

/-- operand pairs on which `Pow` is specified exactly, in terms of values -/
def PowExact (x y : Spec.Val) : Prop :=
  x.isNaN = true ∨ y.isNaN = true ∨ x.isInf = true ∨ y.isInf = true ∨ x.isZero = true ∨ y.isZero = true ∨
  absOne y = true ∨ x.same Spec.posOne = true ∨
  (x.neg = true ∧ isIntQ y.abs = false) ∨
  (∃ K : Int, x.abs = (10 : ℚ) ^ K ∧
    ((∃ Y : Nat, y.neg = false ∧ y.abs = (Y : ℚ) ∧ 2 ≤ Y) ∨
     (x.neg = false ∧ K % 2 = 0 ∧ y.abs = 1 / 2)))

/-- the exact result of `Pow` on the pairs of `PowExact`, as a function of the operand values -/
def powW (m : Spec.Mode) (x y : Spec.Val) : Spec.Val :=
  if y.isZero = true then Spec.posOne
  else if x.same Spec.posOne = true then Spec.posOne
  else if absOne y = true then (if y.neg = true then Spec.quo m Spec.posOne x else x)
  else if x.isNaN = true then x
  else if y.isNaN = true then y
  else if y.isInf = true then
    (if absOne x = true then Spec.posOne
     else if (absGtOne x != y.neg) = true then .inf false else .fin false 0 0)
  else if x.isInf = true then
    (if y.neg = true then .fin (x.neg && oddIntQ y.abs) 0 0 else .inf (x.neg && oddIntQ y.abs))
  else if x.isZero = true then
    (if y.neg = true then .inf (x.neg && oddIntQ y.abs) else .fin (x.neg && oddIntQ y.abs) 0 0)
  else if (x.neg && !isIntQ y.abs) = true then Spec.invalid2 .pow x y
  else if y.abs = 1 / 2 then
    .fin false 1 (if y.neg = true then -(Spec.ilog10 x.abs / 2) else Spec.ilog10 x.abs / 2)
  else Spec.flushOrRoundS m (x.neg && oddIntQ y.abs) 1 (Spec.ilog10 x.abs * y.abs.num)

/-! ## both respect `same` -/

private theorem abs_congr {x x' : Spec.Val} (h : x.same x' = true) : x.abs = x'.abs := by
  rcases same_cases h with ⟨n, p, rfl, rfl⟩ | ⟨n, rfl, rfl⟩ | ⟨n, c, e, c', e', rfl, rfl, hm⟩
  · rfl
  · rfl
  · exact mag_congr hm

private theorem isInf_congr {x x' : Spec.Val} (h : x.same x' = true) : x.isInf = x'.isInf := by
  rcases same_cases h with ⟨n, p, rfl, rfl⟩ | ⟨n, rfl, rfl⟩ | ⟨n, c, e, c', e', rfl, rfl, hm⟩ <;> rfl

private theorem absOne_congr' {x x' : Spec.Val} (h : x.same x' = true) : absOne x = absOne x' := by
  rcases same_cases h with ⟨n, p, rfl, rfl⟩ | ⟨n, rfl, rfl⟩ | ⟨n, c, e, c', e', rfl, rfl, hm⟩
  · rfl
  · rfl
  · simp only [absOne, mag_congr hm]

private theorem absGtOne_congr {x x' : Spec.Val} (h : x.same x' = true) :
    absGtOne x = absGtOne x' := by
  rcases same_cases h with ⟨n, p, rfl, rfl⟩ | ⟨n, rfl, rfl⟩ | ⟨n, c, e, c', e', rfl, rfl, hm⟩
  · rfl
  · rfl
  · simp only [absGtOne, mag_congr hm]

private theorem posOne_congr {x x' : Spec.Val} (h : x.same x' = true) :
    x.same Spec.posOne = x'.same Spec.posOne := by
  rw [same_posOne, same_posOne, neg_congr h, absOne_congr' h]

private theorem same_ite {c : Prop} [Decidable c] {a a' b b' : Spec.Val} (h1 : a.same a' = true)
    (h2 : b.same b' = true) : (if c then a else b).same (if c then a' else b') = true := by
  split <;> assumption

theorem PowExact_congr {x x' y y' : Spec.Val} (hx : x.same x' = true) (hy : y.same y' = true)
    (h : PowExact x y) : PowExact x' y' := by
  unfold PowExact at h ⊢
  rw [← isNaN_congr (sameNum_of_same hx), ← isNaN_congr (sameNum_of_same hy), ← isInf_congr hx,
    ← isInf_congr hy, ← isZero_congr (sameNum_of_same hx), ← isZero_congr (sameNum_of_same hy),
    ← absOne_congr' hy, ← posOne_congr hx, ← neg_congr hx, ← neg_congr hy, ← abs_congr hx,
    ← abs_congr hy]
  exact h

theorem powW_congr (m : Spec.Mode) {x x' y y' : Spec.Val} (hx : x.same x' = true)
    (hy : y.same y' = true) : (powW m x y).same (powW m x' y') = true := by
  unfold powW
  rw [← isNaN_congr (sameNum_of_same hx), ← isNaN_congr (sameNum_of_same hy), ← isInf_congr hx,
    ← isInf_congr hy, ← isZero_congr (sameNum_of_same hx), ← isZero_congr (sameNum_of_same hy),
    ← absOne_congr' hy, ← absOne_congr' hx, ← absGtOne_congr hx, ← posOne_congr hx, ← neg_congr hx,
    ← neg_congr hy, ← abs_congr hx, ← abs_congr hy,
    ← invalid2_congr .pow (sameNum_of_same hx) (sameNum_of_same hy)]
  repeat' apply same_ite
  all_goals first
    | exact same_refl _
    | exact hx
    | exact hy
    | exact quo_congr m (same_refl _) hx

/-! ## the value of `Pow` on the exact cases -/

private theorem pow10_coeff {c : Nat} {e K : Int} (h : Spec.mag c e = (10 : ℚ) ^ K) :
    ∃ a : Nat, c = 10 ^ a ∧ (a : Int) + e = K := by
  have h10 : (10 : ℚ) ≠ 0 := by norm_num
  rw [Spec.mag, SpecRound.pow10_eq_zpow] at h
  have hc : (c : ℚ) = (10 : ℚ) ^ (K - e) := by
    rw [zpow_sub₀ h10, eq_div_iff (zpow_pos (by norm_num) e).ne']; exact h
  have hpos : (0 : ℚ) < (c : ℚ) := by rw [hc]; exact zpow_pos (by norm_num) _
  have hc1 : (1 : ℚ) ≤ (c : ℚ) := by
    have : 0 < c := by exact_mod_cast hpos
    exact_mod_cast this
  have ht : 0 ≤ K - e := by
    by_contra hneg
    have : (10 : ℚ) ^ (K - e) < 1 := zpow_lt_one_of_neg₀ (by norm_num) (by omega)
    rw [← hc] at this
    exact absurd hc1 (not_le.2 this)
  refine ⟨(K - e).toNat, ?_, by omega⟩
  have : (c : ℚ) = ((10 ^ (K - e).toNat : Nat) : ℚ) := by
    rw [hc]; push_cast
    rw [← zpow_natCast, Int.toNat_of_nonneg ht]
  exact_mod_cast this

private theorem ilog10_pow (K : Int) : Spec.ilog10 ((10 : ℚ) ^ K) = K :=
  SpecRound.ilog10_eq_of (le_refl _)
    ((zpow_lt_zpow_iff_right₀ (by norm_num : (1 : ℚ) < 10)).2 (by omega))

private theorem not_posOne {x : Spec.Val} (h : ¬ x.same Spec.posOne = true) :
    (absOne x && !x.neg) = false := by
  rw [same_posOne] at h
  cases h1 : absOne x <;> cases h2 : x.neg <;> simp_all

private theorem absOne_fin' {x : Spec.Val} (h : absOne x = true) :
    ∃ n c e, x = .fin n c e ∧ Spec.mag c e = 1 := by
  cases x with
  | nan n p => simp [absOne] at h
  | inf n => simp [absOne] at h
  | fin n c e => exact ⟨n, c, e, rfl, by simpa [absOne] using h⟩

/-- **The exact cases of `Pow`, by value.**  For every pair of bit patterns whose values satisfy `PowExact`
    and every valid mode byte, `PowWithMode` returns (no panic) a Decimal denoting `powW m 𝔳[d] 𝔳[o]`. -/
theorem pow_exact_value (d o : Gen.Decimal) (rm : UInt8) (m : Spec.Mode)
    (hm : Spec.Mode.ofNat? rm.toNat = some m) (h : PowExact 𝔳[d] 𝔳[o]) :
    ∃ r, Gen.Decimal.PowWithMode d o rm = .ok r ∧ (𝔳[r]).same (powW m 𝔳[d] 𝔳[o]) = true := by
  unfold powW
  -- y = ±0
  by_cases hz : (𝔳[o]).isZero = true
  · rw [if_pos hz]
    obtain ⟨e1, e2, _⟩ := Props.C18.pow_exp_zero d o rm m hz
    exact ⟨_, e1, by rw [e2]; exact same_refl _⟩
  have hz' : (𝔳[o]).isZero = false := by simpa using hz
  rw [if_neg hz]
  -- x = +1
  by_cases h1 : (𝔳[d]).same Spec.posOne = true
  · rw [if_pos h1]
    have h1' := h1
    rw [same_posOne, Bool.and_eq_true] at h1'
    obtain ⟨n, c, e, hx, hmag⟩ := absOne_fin' h1'.2
    have hn : n = false := by
      have := h1'.1; rw [hx] at this; simpa [Spec.Val.neg] using this
    obtain ⟨e1, e2, _⟩ := Props.C18.pow_base_one d o rm m n c e hz' hx hmag (Or.inl hn)
    exact ⟨_, e1, by rw [e2]; exact same_refl _⟩
  rw [if_neg h1]
  have hb := not_posOne h1
  -- |y| = 1
  by_cases ha : absOne 𝔳[o] = true
  · rw [if_pos ha]
    obtain ⟨n, c, e, hy, hmag⟩ := absOne_fin' ha
    cases n
    · rw [if_neg (by rw [hy]; simp [Spec.Val.neg])]
      exact Props.C18.pow_exp_one d o rm m c e hy hmag
    · rw [if_pos (by rw [hy]; rfl)]
      exact (Props.C18.pow_exp_neg_one d o rm m c e
        (Props.C02.quo_correct (Gen.one false) d rm m hm) hy hmag hb).2
  have ha' : absOne 𝔳[o] = false := by simpa using ha
  rw [if_neg ha]
  -- x NaN
  by_cases hxn : (𝔳[d]).isNaN = true
  · rw [if_pos hxn]
    refine ⟨d, Props.C18.pow_nan_left d o rm (by rw [← Enc.interp_isNaN]; exact hxn) hz' ha',
      same_refl _⟩
  have hxn' : (𝔳[d]).isNaN = false := by simpa using hxn
  rw [if_neg hxn]
  -- y NaN
  by_cases hyn : (𝔳[o]).isNaN = true
  · rw [if_pos hyn]
    refine ⟨o, Props.C18.pow_nan_right d o rm (by rw [← Enc.interp_isNaN]; exact hyn)
      (by rw [← Enc.interp_isNaN]; exact hxn') hb, same_refl _⟩
  have hyn' : (𝔳[o]).isNaN = false := by simpa using hyn
  rw [if_neg hyn]
  -- y = ±Inf
  by_cases hyi : (𝔳[o]).isInf = true
  · rw [if_pos hyi]
    by_cases hxa : absOne 𝔳[d] = true
    · rw [if_pos hxa]
      obtain ⟨n, c, e, hx, hmag⟩ := absOne_fin' hxa
      obtain ⟨e1, e2, _⟩ := Props.C18.pow_base_one d o rm m n c e hz' hx hmag (Or.inr hyi)
      exact ⟨_, e1, by rw [e2]; exact same_refl _⟩
    · rw [if_neg hxa]
      cases hy : 𝔳[o] with
      | nan n p => rw [hy] at hyi; cases hyi
      | fin n c e => rw [hy] at hyi; cases hyi
      | inf yn =>
        obtain ⟨e1, _⟩ := Props.C18b.pow_exp_inf d o rm m yn hy hxn' (by simpa using hxa)
        refine ⟨_, e1, ?_⟩
        simp only [Spec.Val.neg]
        exact interp_infTable (absGtOne 𝔳[d]) yn
  rw [if_neg hyi]
  -- from here y is finite, non-zero, |y| ≠ 1
  cases hy : 𝔳[o] with
  | nan n p => rw [hy] at hyn; exact absurd rfl hyn
  | inf n => rw [hy] at hyi; exact absurd rfl hyi
  | fin yn yc ye =>
    have hz2 : ¬ (Spec.Val.fin yn yc ye).isZero = true := by rw [← hy]; exact hz
    have ha2 : ¬ absOne (Spec.Val.fin yn yc ye) = true := by rw [← hy]; exact ha
    have hy0 : yc ≠ 0 := by
      intro h0; rw [h0] at hz2; exact hz2 rfl
    have hy1 : Spec.mag yc ye ≠ 1 := by
      intro h0; exact ha2 (by simp [absOne, h0])
    rw [show (Spec.Val.fin yn yc ye).neg = yn from rfl,
      show (Spec.Val.fin yn yc ye).abs = Spec.mag yc ye from rfl]
    cases hx : 𝔳[d] with
    | nan n p => rw [hx] at hxn; exact absurd rfl hxn
    | inf xn =>
      rw [if_pos (show (Spec.Val.inf xn).isInf = true from rfl),
        show (Spec.Val.inf xn).neg = xn from rfl]
      obtain ⟨r, w, e1, _, e3, e4⟩ := Props.C18b.pow_inf_base d o rm m xn yn yc ye hx hy hy0 hy1
      subst e4
      exact ⟨r, e1, e3⟩
    | fin xn xc xe =>
      have h12 : ¬ (Spec.Val.fin xn xc xe).same Spec.posOne = true := by rw [← hx]; exact h1
      rw [if_neg (show ¬ (Spec.Val.fin xn xc xe).isInf = true from by simp [Spec.Val.isInf]),
        show (Spec.Val.fin xn xc xe).neg = xn from rfl,
        show (Spec.Val.fin xn xc xe).abs = Spec.mag xc xe from rfl]
      by_cases hxz : xc = 0
      · subst hxz
        rw [if_pos (show (Spec.Val.fin xn 0 xe).isZero = true from rfl)]
        obtain ⟨r, w, e1, _, e3, e4⟩ := Props.C18b.pow_zero_base d o rm m xn xe yn yc ye hx hy hy0 hy1
        subst e4
        exact ⟨r, e1, e3⟩
      · have hxz' : (Spec.Val.fin xn xc xe).isZero = false := by
          rw [isZero_fin]; simpa using hxz
        rw [if_neg (by rw [hxz']; simp)]
        -- which exact case?
        rw [hx, hy] at h
        unfold PowExact at h
        simp only [Spec.Val.isNaN, Spec.Val.isInf, Bool.false_eq_true, false_or, hxz',
          Spec.Val.neg, Spec.Val.abs] at h
        rcases h with h | h | h | h | h
        · exact absurd h hz2
        · exact absurd h ha2
        · exact absurd h h12
        · -- negative base, non-integer exponent
          obtain ⟨hn, hni⟩ := h
          subst hn
          rw [if_pos (by rw [hni]; rfl)]
          obtain ⟨e1, _, e3⟩ := Props.C18b.pow_neg_base_nonint d o rm m xc xe yn yc ye hx hxz hy hy0 hni
          exact ⟨_, e1, by rw [e3, hx, hy]; exact same_refl _⟩
        · obtain ⟨K, hK, h⟩ := h
          obtain ⟨a, rfl, haK⟩ := pow10_coeff hK
          rcases h with ⟨Y, hyn0, hY, hY2⟩ | ⟨hxn0, hev, hY⟩
          · -- power of ten to a natural number
            subst hyn0
            have hint : isIntQ (Spec.mag yc ye) = true := by rw [hY]; simp [isIntQ]
            rw [if_neg (by rw [hint]; simp)]
            have hne : ¬ Spec.mag yc ye = 1 / 2 := by
              rw [hY]; intro h2
              have : (2 : ℚ) ≤ (Y : ℚ) := by exact_mod_cast hY2
              rw [h2] at this; norm_num at this
            rw [if_neg hne]
            obtain ⟨r, e1, e2⟩ := Props.C18b.pow_ten_int d o rm xn a xe yc ye Y hx hy hY hY2
            refine ⟨r, e1, ?_⟩
            have := e2 m hm
            rw [hK, ilog10_pow, hY, oddIntQ_nat, Rat.num_natCast, ← haK]
            exact this
          · -- even power of ten to ±1/2
            subst hxn0
            rw [if_neg (by simp)]
            rw [if_pos hY]
            obtain ⟨r, w, e1, e2, _⟩ := Props.C18b.pow_ten_half d o rm m a xe yn yc ye hx hy hY
              (by rw [haK]; exact hev)
            refine ⟨r, e1, ?_⟩
            rw [e2, hK, ilog10_pow, ← haK]
            exact same_refl _

/-! ## encoding independence -/

/-- **C19 for `PowWithMode` on all its exactly specified cases.** -/
theorem pow_encoding_independent_exact (d d' o o' : Gen.Decimal) (rm : UInt8) (m : Spec.Mode)
    (hm : Spec.Mode.ofNat? rm.toNat = some m)
    (hd : (𝔳[d]).same 𝔳[d'] = true) (ho : (𝔳[o]).same 𝔳[o'] = true)
    (h : PowExact 𝔳[d] 𝔳[o]) :
    ∃ r r', Gen.Decimal.PowWithMode d o rm = .ok r ∧ Gen.Decimal.PowWithMode d' o' rm = .ok r' ∧
      (𝔳[r]).same 𝔳[r'] = true := by
  obtain ⟨r, hr, hs⟩ := pow_exact_value d o rm m hm h
  obtain ⟨r', hr', hs'⟩ := pow_exact_value d' o' rm m hm (PowExact_congr hd ho h)
  exact ⟨r, r', hr, hr',
    same_trans (same_trans hs (powW_congr m hd ho)) (same_symm' hs')⟩

/-- the same for the default-mode entry point `Pow` -/
theorem pow_default_encoding_independent_exact (g : Globals) (d d' o o' : Gen.Decimal) (m : Spec.Mode)
    (hm : Spec.Mode.ofNat? g.DefaultRoundingMode.toNat = some m)
    (hd : (𝔳[d]).same 𝔳[d'] = true) (ho : (𝔳[o]).same 𝔳[o'] = true)
    (h : PowExact 𝔳[d] 𝔳[o]) :
    ∃ r r', Gen.Decimal.Pow g d o = .ok r ∧ Gen.Decimal.Pow g d' o' = .ok r' ∧
      (𝔳[r]).same 𝔳[r'] = true := by
  rw [Props.C18.pow_default, Props.C18.pow_default]
  exact pow_encoding_independent_exact d d' o o' _ m hm hd ho h

/-! ## link to the specification table: every pair `Spec.powSpecial` decides is a `PowExact` pair -/

/-- whenever the specification table `Spec.powSpecial` prescribes a result for ONE encoding pair
    (`some w`), the values form a `PowExact` pair (y a Decimal coefficient, `yc ≤ Cmax`) — so by
    `pow_encoding_independent_exact` every other encoding of the same values gives the same result, also
    those for which the table answers `none` -/
theorem powExact_of_powSpecial (m : Spec.Mode) (x y w : Spec.Val)
    (hv : ∀ n c e, y = .fin n c e → c ≤ Spec.Cmax)
    (hw : Spec.powSpecial m x y = some w) : PowExact x y := by
  unfold PowExact
  by_cases hz : y.isZero = true
  · exact Or.inr (Or.inr (Or.inr (Or.inr (Or.inr (Or.inl hz)))))
  have hz' : y.isZero = false := by simpa using hz
  cases y with
  | nan n p => exact Or.inr (Or.inl rfl)
  | inf n => exact Or.inr (Or.inr (Or.inr (Or.inl rfl)))
  | fin yn yc ye =>
    have hyc : yc ≠ 0 := by
      intro h0; subst h0; exact hz rfl
    cases x with
    | nan n p => exact Or.inl rfl
    | inf n => exact Or.inr (Or.inr (Or.inl rfl))
    | fin xn xc xe =>
      by_cases hxc : xc = 0
      · subst hxc; exact Or.inr (Or.inr (Or.inr (Or.inr (Or.inl rfl))))
      by_cases ha : absOne (Spec.Val.fin yn yc ye) = true
      · exact Or.inr (Or.inr (Or.inr (Or.inr (Or.inr (Or.inr (Or.inl ha))))))
      by_cases h1 : (Spec.Val.fin xn xc xe).same Spec.posOne = true
      · exact Or.inr (Or.inr (Or.inr (Or.inr (Or.inr (Or.inr (Or.inr (Or.inl h1)))))))
      refine Or.inr (Or.inr (Or.inr (Or.inr (Or.inr (Or.inr (Or.inr (Or.inr ?_)))))))
      have hmag : (Spec.mag yc ye == 1) = false := by
        simpa [absOne] using ha
      have hb := not_posOne h1
      rw [powSpecial_late m _ _ hz' (by
          rw [show (Spec.Val.fin yn yc ye).isInf = false from rfl, Bool.or_false]; exact hb),
        psLate_fin m _ yn yc ye hmag] at hw
      have hxb : (xc == 0) = false := by simpa using hxc
      simp only [psFin, hxb, Bool.false_eq_true, if_false] at hw
      by_cases hneg : (xn && (Spec.intParity yc ye).isNone) = true
      · left
        rw [Bool.and_eq_true] at hneg
        refine ⟨hneg.1, ?_⟩
        have := intParity_isNone yc ye hyc (hv yn yc ye rfl)
        rw [hneg.2] at this
        show isIntQ (Spec.mag yc ye) = false
        cases h : isIntQ (Spec.mag yc ye)
        · rfl
        · rw [h] at this; cases this
      · right
        rw [if_neg hneg] at hw
        cases hk : Spec.powerOfTen xc xe with
        | none => rw [hk] at hw; cases hw
        | some k =>
          rw [hk] at hw
          obtain ⟨a, rfl, rfl⟩ := powerOfTen_some xc xe k hk
          refine ⟨(a : Int) + xe, ?_, ?_⟩
          · show Spec.mag (10 ^ a) xe = _
            rw [Spec.mag, SpecRound.pow10_eq_zpow, zpow_add₀ (by norm_num : (10 : ℚ) ≠ 0), zpow_natCast]
            push_cast; ring
          · simp only at hw
            by_cases hint : (!yn && decide (ye ≥ 0)) = true
            · left
              rw [Bool.and_eq_true, Bool.not_eq_true', decide_eq_true_eq] at hint
              obtain ⟨hyn, hye⟩ := hint
              refine ⟨yc * 10 ^ ye.toNat, hyn ▸ rfl, ?_, ?_⟩
              · show Spec.mag yc ye = _
                rw [Spec.mag, SpecRound.pow10_eq_zpow]
                exact strip_nat yc ye hye
              · have hpos : 0 < yc * 10 ^ ye.toNat := Nat.mul_pos (Nat.pos_of_ne_zero hyc) (by positivity)
                have hne1 : yc * 10 ^ ye.toNat ≠ 1 := by
                  intro h
                  have : Spec.mag yc ye = 1 := by
                    rw [Spec.mag, SpecRound.pow10_eq_zpow, strip_nat yc ye hye, h]; simp
                  rw [this] at hmag; simp at hmag
                omega
            · right
              rw [if_neg hint] at hw
              by_cases hh : (!xn && Spec.mag yc ye == 1 / 2 && ((a : Int) + xe) % 2 == 0) = true
              · rw [Bool.and_eq_true, Bool.and_eq_true, Bool.not_eq_true', beq_iff_eq, beq_iff_eq] at hh
                exact ⟨hh.1.1 ▸ rfl, hh.2, hh.1.2⟩
              · rw [if_neg hh] at hw; cases hw

/-- **C19 for `Pow` wherever the specification table decides.**  If `Spec.powSpecial` prescribes a result
    for the pair (d, o), then every pair (d', o') of other encodings of the same values returns a result of
    the same class, sign and value (and NaN payload). -/
theorem pow_encoding_independent_table (d d' o o' : Gen.Decimal) (rm : UInt8) (m : Spec.Mode)
    (w : Spec.Val) (hm : Spec.Mode.ofNat? rm.toNat = some m)
    (hd : (𝔳[d]).same 𝔳[d'] = true) (ho : (𝔳[o]).same 𝔳[o'] = true)
    (hw : Spec.powSpecial m 𝔳[d] 𝔳[o] = some w) :
    ∃ r r', Gen.Decimal.PowWithMode d o rm = .ok r ∧ Gen.Decimal.PowWithMode d' o' rm = .ok r' ∧
      (𝔳[r]).same 𝔳[r'] = true := by
  refine pow_encoding_independent_exact d d' o o' rm m hm hd ho
    (powExact_of_powSpecial m _ _ w (fun n c e h => ?_) hw)
  have := CanonPf.interp_valid o.lo o.hi
  rw [h] at this
  exact this.1

/-! ## the hypotheses are satisfiable -/

/-- `10` written `10e0` and `100e-1` … -/
theorem ex_ten : (𝔳[Gen.compose false ⟨10, 0⟩ 6176]).same 𝔳[Gen.compose false ⟨100, 0⟩ 6175] = true := by
  decide +kernel
/-- … and `2` written `2e0` and `20e-1` (for which `Spec.powSpecial` answers `some` resp. `none`) -/
theorem ex_two : (𝔳[Gen.compose false ⟨2, 0⟩ 6176]).same 𝔳[Gen.compose false ⟨20, 0⟩ 6175] = true := by
  decide +kernel

/-- `10^2` is an exact case (power of ten to a natural number) -/
theorem ex_exact : PowExact 𝔳[Gen.compose false ⟨10, 0⟩ 6176] 𝔳[Gen.compose false ⟨2, 0⟩ 6176] := by
  rw [show 𝔳[Gen.compose false ⟨10, 0⟩ 6176] = .fin false 10 0 by decide +kernel,
    show 𝔳[Gen.compose false ⟨2, 0⟩ 6176] = .fin false 2 0 by decide +kernel]
  refine Or.inr (Or.inr (Or.inr (Or.inr (Or.inr (Or.inr (Or.inr (Or.inr (Or.inr
    ⟨1, ?_, Or.inl ⟨2, rfl, ?_, le_refl _⟩⟩))))))))
  · simp [Spec.Val.abs, Spec.mag, SpecRound.pow10_eq_zpow]
  · simp [Spec.Val.abs, Spec.mag, SpecRound.pow10_eq_zpow]

example := pow_encoding_independent_exact _ _ _ _ 0 .nearestEven rfl ex_ten ex_two ex_exact
example := pow_exact_value _ _ 4 .toNegInf rfl ex_exact

end Props.C19
