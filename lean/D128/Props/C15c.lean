/-
  Property C15, constructors: the exported `Inf(sign)` and `NaN()` build the special values the rest of the property
  talks about.  `Inf` denotes the infinity of the requested sign for every int (negative iff sign < 0); `NaN()` denotes
  a quiet, positive NaN whose payload names the operation `NaN()` (code 5) with no operand classes; both are classified
  accordingly by the predicates.
-/
import D128.Props.C15
set_option autoImplicit false

namespace Props.C15c

local notation "𝔳[" d "]" => Spec.interp (Gen.Decimal.lo d) (Gen.Decimal.hi d)

theorem Inf_denotes (sign : Int64) : 𝔳[Gen.Inf sign] = .inf (decide (sign < 0)) := by
  show 𝔳[Gen.inf (decide (sign < 0))] = _
  exact Enc.interp_inf _

theorem Inf_classified (sign : Int64) :
    Gen.Decimal.IsNaN (Gen.Inf sign) = false ∧ Gen.Decimal.isInf (Gen.Inf sign) = true ∧
    Gen.Decimal.IsZero (Gen.Inf sign) = false ∧ Gen.Decimal.Signbit (Gen.Inf sign) = decide (sign < 0) := by
  show Gen.Decimal.IsNaN (Gen.inf (decide (sign < 0))) = false ∧ Gen.Decimal.isInf (Gen.inf (decide (sign < 0))) = true ∧
    Gen.Decimal.IsZero (Gen.inf (decide (sign < 0))) = false ∧ Gen.Decimal.Signbit (Gen.inf (decide (sign < 0))) = decide (sign < 0)
  cases decide (sign < 0) <;> decide

theorem NaN_denotes : 𝔳[Gen.NaN] = .nan false 5 := by
  show 𝔳[Gen.nan 5 0 0] = _
  rw [Enc.interp_nan]; rfl

theorem NaN_classified :
    Gen.Decimal.IsNaN Gen.NaN = true ∧ Gen.Decimal.IsZero Gen.NaN = false ∧ Gen.Decimal.Signbit Gen.NaN = false := by
  decide

example : 𝔳[Gen.Inf (-7)] = .inf true := by rw [Inf_denotes]; decide
example : 𝔳[Gen.Inf 0] = .inf false := by rw [Inf_denotes]; decide

end Props.C15c
