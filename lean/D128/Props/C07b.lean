/-
  Property C07 (formatting with a precision lays out like float64) — the byte emitters.

  `Gen.digits.pad`, `Gen.digits.fmtE`, `Gen.digits.fmtF`, `Gen.Decimal.format`, `Gen.Decimal.appendSpecial`,
  `Gen.Decimal.Append` (generated in `D128/Gen/FormatText.lean` from /repo/format.go) against
  `Spec.fmtSpec` (`D128/Spec/Text.lean`).  Statements only; proofs assemble `D128/Proofs/Layout*.lean`.
  The rounding core (`digits.round` = `Spec.roundSlice`) and the spec parser (`parseFormat` =
  `Dg.parseSpec`) are in `D128/Props/C07.lean`.

  Vocabulary: `Ly.bstr b` = the text a byte string denotes; `Ly.chr` = one byte as a `Char`;
  `Ly.signStr neg plus space` = `-` / `+` / blank / nothing; `Ly.padStr minus zero w sign body` = the
  width rule of `Spec.fmtSpec` (its last four lines verbatim, `Ly.fmtSpec_eq : … := rfl`);
  `Dg.slice r` = the `Spec.Slice` a digit record denotes, `Ly.nslice r` = the same with zero
  normalised to `⟨[], 0⟩`; `Ly.expOf r` = the decimal exponent `fmtE` prints;
  `Ly.flagsOf a` / `Ly.precOf a` = the `Spec.Flags` / optional precision a `formatArgs` stands for;
  `Ly.specialStr`, `Ly.specialPad` = fmt's text for a float64 NaN / infinity and its blank padding.

  * `fmtE_layout`, `fmtF_layout` : bytes appended = `Spec.layoutE` / `Spec.layoutF` of the record's slice,
        with sign flags, forced point, exponent form, width padding; no panic; record unchanged
  * `pad_spec`        : width padding; bytes before `start` stay
  * `pad_zero_minus`  : DEFECT — `0` and `-` together (possible through `Decimal.Format`, never through
        `parseFormat`) pad the right side with `'0'`
  * `format_spec`     : `Decimal.format d buf args = .ok (args, buf ++ Spec.fmtSpec …)` for every finite
        `d`, verbs `eEfFgG`, every precision (absent, or `< 2^56`), width `< 2^62`, all flag sets
        without `0`+`-`; includes the `%g` switch-over by the exponent AFTER rounding and `#`
  * `parsed_args_ok`  : every parsed spec has `0 ≤ width < 10^6`, precision −1 or in `[0, 10^6)`, and
        never `0` with `-`
  * `decimal_append_spec`, `decimal_append_special`, `decimal_append_noverb` : `Decimal.Append`
  * `append_spec`, `format_fn_spec` : the API functions `Append(buf, d, fmt, prec)` / `Format(d, fmt, prec)`
        for `prec ≥ 0` (verbs `e E f g G`)

  * `decimal_append_total` : C20 for `Decimal.Append` — every `d`, buffer and spec byte string

  FINDING, FIXED in /repo commit 1d99a24: `parseFormat` used to let the precision accumulator run on
  after it had saturated to −1; the 26-digit precision numeral `1` followed by 25 zeros wrapped the
  `int` to 8446744073709551616, and `Decimal.Append(nil, ".10000000000000000000000000f")` died with
  "fatal error: out of memory".  Now a saturated precision stays −1 (`Ex.precision_saturates`), every
  parsed spec has a precision in `{−1} ∪ [0, 10^6)` (`parsed_args_ok`), `decimal_append_spec` needs no
  bound on the precision, and the output is bounded (`decimal_append_total`).
-/
import D128.Proofs.LayoutTotal
set_option autoImplicit false

namespace Props.C07

open Ly in
/-- the value a bit pattern denotes -/
local notation "𝔳[" d "]" => Spec.interp (Gen.Decimal.lo d) (Gen.Decimal.hi d)

/-! ## 1. the two layouts -/

/-- **`fmtE`** appends `sign ++ Spec.layoutE (slice d) prec '#' e (2 or 1 exponent digits)`, padded to
the width, for a well-formed record whose digits fit the precision (`ndig ≤ prec + 1`: what `round`
leaves), with a printable exponent; never panics; returns the record unchanged. -/
theorem fmtE_layout (d : Gen.digits) (hwf : Dg.WF d) (buf : Go.Bytes) (prec width : Int64)
    (forceDP printSign padSign padExp padRight padZero : Bool) (e : UInt8) (hexp : Dg.ExpOK d)
    (hp0 : 0 ≤ prec.toInt) (hp : prec.toInt < 2 ^ 60) (hnd : d.ndig.toInt ≤ prec.toInt + 1)
    (hz : d.ndig.toInt = 0 → d.exp.toInt = 0) (hx : (Ly.expOf d).natAbs < 10000)
    (W : Nat) (hW : width.toInt = W) (hW' : W < 2 ^ 62) (hb : buf.size < 2 ^ 61)
    (hprz : padRight = true → padZero = false) :
    ∃ r, Gen.digits.fmtE d buf prec width forceDP printSign padSign padExp padRight padZero e =
        .ok (d, r) ∧
      Ly.bstr r = Ly.bstr buf ++ Ly.padStr padRight padZero W (Ly.signStr d.neg printSign padSign)
        (Spec.layoutE (Dg.slice d) prec.toInt.toNat forceDP (Ly.chr e) (if padExp then 2 else 1)) :=
  Ly.fmtE_layout d hwf buf prec width forceDP printSign padSign padExp padRight padZero e hexp hp0 hp
    hnd hz hx W hW hW' hb hprz

/-- **`fmtF`** appends `sign ++ Spec.layoutF (slice d) prec '#'`, padded to the width, for a
well-formed record whose fraction digits fit the precision (`−exp ≤ prec`: what `round` leaves). -/
theorem fmtF_layout (d : Gen.digits) (hwf : Dg.WF d) (buf : Go.Bytes) (prec width : Int64)
    (forceDP printSign padSign padRight padZero : Bool)
    (hx0 : -2 ^ 58 ≤ d.exp.toInt) (hx1 : d.exp.toInt ≤ 2 ^ 58)
    (hp0 : 0 ≤ prec.toInt) (hp : prec.toInt < 2 ^ 58)
    (hfit : d.ndig.toInt = 0 ∨ -d.exp.toInt ≤ prec.toInt)
    (W : Nat) (hW : width.toInt = W) (hW' : W < 2 ^ 62) (hb : buf.size < 2 ^ 61)
    (hprz : padRight = true → padZero = false) :
    ∃ r, Gen.digits.fmtF d buf prec width forceDP printSign padSign padRight padZero = .ok (d, r) ∧
      Ly.bstr r = Ly.bstr buf ++ Ly.padStr padRight padZero W (Ly.signStr d.neg printSign padSign)
        (Spec.layoutF (Ly.nslice d) prec.toInt.toNat forceDP) :=
  Ly.fmtF_layout d hwf buf prec width forceDP printSign padSign padRight padZero hx0 hx1 hp0 hp hfit
    W hW hW' hb hprz

/-- the byte-level form: for ANY record with `0 ≤ ndig ≤ 39` (well-formed or not) and any precision
`fmtE` terminates without panic and returns `buf ++ bodyE`, padded by `padOut` -/
theorem fmtE_total (d : Gen.digits) (buf : Go.Bytes) (prec width : Int64)
    (fdp ps pds pe pr pz : Bool) (e : UInt8) (hexp : Dg.ExpOK d) (h0 : 0 ≤ d.ndig.toInt)
    (h39 : d.ndig.toInt ≤ 39) (W : Nat) (hW : width.toInt = W) (hW' : W < 2 ^ 62)
    (hb : buf.size < 2 ^ 61) (hp : prec.toInt < 2 ^ 60) :
    Gen.digits.fmtE d buf prec width fdp ps pds pe pr pz e =
      .ok (d, Ly.padOut d.neg (buf ++ (Ly.bodyE d prec.toInt fdp ps pds pe e).toArray) buf.size W
        ps pds pr pz) :=
  Ly.fmtE_eq d buf prec width fdp ps pds pe pr pz e hexp h0 h39 W hW hW' hb hp

/-- likewise `fmtF` (a negative width with an empty buffer can make the size hint negative, which
panics in `make`; widths are never negative) -/
theorem fmtF_total (d : Gen.digits) (buf : Go.Bytes) (prec width : Int64)
    (fdp ps pds pr pz : Bool) (hx0 : -2 ^ 58 ≤ d.exp.toInt) (hx1 : d.exp.toInt ≤ 2 ^ 58)
    (h0 : 0 ≤ d.ndig.toInt) (h39 : d.ndig.toInt ≤ 39) (W : Nat) (hW : width.toInt = W)
    (hW' : W < 2 ^ 62) (hb : buf.size < 2 ^ 61) (hp0 : -2 ^ 62 ≤ prec.toInt)
    (hp : prec.toInt < 2 ^ 58) :
    Gen.digits.fmtF d buf prec width fdp ps pds pr pz =
      .ok (d, Ly.padOut d.neg (buf ++ (Ly.bodyF d prec.toInt fdp ps pds).toArray) buf.size W
        ps pds pr pz) :=
  Ly.fmtF_eq d buf prec width fdp ps pds pr pz hx0 hx1 h0 h39 W hW hW' hb hp0 hp

/-! ## 2. width padding -/

/-- **`pad`**: the number at `buf[start:]` (sign bytes `S`, body `B`) is padded to `width` — blanks
on the right for `-`, zeros after the sign for `0`, blanks on the left otherwise; the bytes `pre`
before `start` are left in place; no panic. -/
theorem pad_spec (d : Gen.digits) (pre : Go.Bytes) (S B : List UInt8) (start width : Int64)
    (printSign padSign padRight padZero : Bool) (W : Nat)
    (hS : start.toInt = pre.size) (hW : width.toInt = W)
    (hSl : S.length = if (d.neg || printSign || padSign) = true then 1 else 0)
    (hb : pre.size + S.length + B.length < 2 ^ 62) (hW' : W < 2 ^ 62)
    (hprz : padRight = true → padZero = false) :
    ∃ r, Gen.digits.pad d (pre ++ (S ++ B).toArray) start width printSign padSign padRight padZero =
        .ok (d, r) ∧
      Ly.bstr r = Ly.bstr pre ++ Ly.padStr padRight padZero W (S.map Ly.chr) (B.map Ly.chr) :=
  Ly.pad_spec d pre S B start width printSign padSign padRight padZero W hS hW hSl hb hW' hprz

/-- **Defect**: with both `-` and `0` set, `pad` fills the right side with `'0'` (fmt pads a float64
with blanks there): `%-04g` of 1 prints `1000`.  `parseFormat` clears `0` when it sees `-`
(`parsed_args_ok`), so `Decimal.Append` is not affected; `Decimal.Format` (fmt.Formatter) passes
fmt's flags through unfiltered. -/
theorem pad_zero_minus (d : Gen.digits) (pre : Go.Bytes) (B : List UInt8) (start width : Int64)
    (printSign padSign : Bool) (W : Nat) (hS : start.toInt = pre.size) (hW : width.toInt = W)
    (hb : pre.size + B.length < 2 ^ 62) (hW' : W < 2 ^ 62) (hlt : B.length < W)
    (hsign : (d.neg || printSign || padSign) = false) :
    Gen.digits.pad d (pre ++ B.toArray) start width printSign padSign true true =
      .ok (d, pre ++ B.toArray ++ Array.replicate (W - B.length) 48) :=
  Ly.pad_zero_minus d pre B start width printSign padSign W hS hW hb hW' hlt hsign

/-! ## 3. `Decimal.format` -/

/-- **`Decimal.format` prints `Spec.fmtSpec`.**  Every finite `d = (−1)^neg · c · 10^e`, verbs
`e E f F g G`, precision absent or `< 2^56`, width `< 2^62`, all flag sets except `0` with `-`:
no panic, `args` returned unchanged, the bytes of `buf` kept, and the appended text is exactly what
fmt prints for a float64 of the same value — half-even rounding at the position the precision
selects, the `%g` switch to exponent form decided by the exponent of the ROUNDED value
(`x < −4 ∨ x ≥ max prec 1`, 6 without precision), trailing zeros dropped unless `#`, sign flags,
width. -/
theorem format_spec (d : Gen.Decimal) (buf : Go.Bytes) (args : Gen.formatArgs)
    (neg : Bool) (c : Nat) (e : Int) (hfin : 𝔳[d] = .fin neg c e)
    (hv : args.verb = 101 ∨ args.verb = 69 ∨ args.verb = 102 ∨ args.verb = 70 ∨
      args.verb = 103 ∨ args.verb = 71)
    (hprec : args.prec.toInt < 2 ^ 56) (W : Nat) (hW : args.wid.toInt = W) (hW' : W < 2 ^ 62)
    (hb : buf.size < 2 ^ 61) (hprz : args.padRight = true → args.padZero = false) :
    ∃ r, Gen.Decimal.format d buf args = .ok (args, r) ∧
      Ly.bstr r = Ly.bstr buf ++ Spec.fmtSpec (Ly.flagsOf args) (Ly.chr args.verb) (Ly.precOf args)
        (some W) neg (Spec.sliceOf c e) := by
  have hsp : Gen.Decimal.isSpecial d = false := by
    have := Enc.interp_isFin d
    rw [hfin] at this
    simpa [Spec.Val.isFin] using this.symm
  have hdec := Enc.interp_decompose d hsp
  rw [hfin] at hdec
  injection hdec with h1 h2 h3
  have := Ly.format_spec d buf args hsp hv hprec W hW hW' hb hprz
  rw [← h1, show Ly.coefOf d = c from h2.symm, show Ly.expoOf d = e from h3.symm] at this
  exact this

/-- every parsed spec (ANY byte string): width in `[0, 10^6)`, precision absent (−1) or in
`[0, 10^6)`, and `0` never together with `-` -/
theorem parsed_args_ok (L : List UInt8) :
    0 ≤ (Dg.parseSpec L).wid.toInt ∧ (Dg.parseSpec L).wid.toInt < 1000000 ∧
      ((Dg.parseSpec L).prec.toInt = -1 ∨
        (0 ≤ (Dg.parseSpec L).prec.toInt ∧ (Dg.parseSpec L).prec.toInt < 1000000)) ∧
      ((Dg.parseSpec L).padRight = true → (Dg.parseSpec L).padZero = false) := by
  obtain ⟨h0, h1, h2⟩ := Ly.argsOK_parseSpec L
  exact ⟨h0, h1, Dg.precOK_parseSpec L, h2⟩

/-! ## 4. `Decimal.Append` -/

/-- **`Decimal.Append(buf, spec)` = `buf ++ fmtSpec (parsed spec)`** for a finite `d` and EVERY byte
string `spec` whose parse (`Dg.parseSpec`; `parseFormat_spec`, `parseFormat_grammar` in `C07`) ends in
one of the six verbs — whatever flags, width and precision numerals it contains. -/
theorem decimal_append_spec (d : Gen.Decimal) (buf spec : Go.Bytes)
    (neg : Bool) (c : Nat) (e : Int) (hfin : 𝔳[d] = .fin neg c e)
    (hs : spec.size < 2 ^ 63) (hb : buf.size < 2 ^ 61)
    (hv : (Dg.parseSpec spec.toList).verb = 101 ∨ (Dg.parseSpec spec.toList).verb = 69 ∨
      (Dg.parseSpec spec.toList).verb = 102 ∨ (Dg.parseSpec spec.toList).verb = 70 ∨
      (Dg.parseSpec spec.toList).verb = 103 ∨ (Dg.parseSpec spec.toList).verb = 71) :
    ∃ r, Gen.Decimal.Append d buf spec = .ok r ∧
      Ly.bstr r = Ly.bstr buf ++ Spec.fmtSpec (Ly.flagsOf (Dg.parseSpec spec.toList))
        (Ly.chr (Dg.parseSpec spec.toList).verb) (Ly.precOf (Dg.parseSpec spec.toList))
        (some (Dg.parseSpec spec.toList).wid.toInt.toNat) neg (Spec.sliceOf c e) := by
  have hsp : Gen.Decimal.isSpecial d = false := by
    have := Enc.interp_isFin d
    rw [hfin] at this
    simpa [Spec.Val.isFin] using this.symm
  have hdec := Enc.interp_decompose d hsp
  rw [hfin] at hdec
  injection hdec with h1 h2 h3
  have := Ly.decimal_append_finite d buf spec hsp hs hb hv
  rw [← h1, show Ly.coefOf d = c from h2.symm, show Ly.expoOf d = e from h3.symm] at this
  exact this

/-- **NaN and the infinities through `Decimal.Append`**: `NaN` / `+NaN` / ` NaN`, `+Inf` / ` Inf` /
`-Inf` by the sign flags, blank-padded to the width (right for `-`, `0` ignored); `v` prints the
bare text.  Every byte string `spec` with a verb. -/
theorem decimal_append_special (d : Gen.Decimal) (buf spec : Go.Bytes)
    (hsp : Gen.Decimal.isSpecial d = true) (hs : spec.size < 2 ^ 63) (hb : buf.size < 2 ^ 62)
    (hv : (Dg.parseSpec spec.toList).verb ≠ 0) :
    ∃ r, Gen.Decimal.Append d buf spec = .ok r ∧
      Ly.bstr r = Ly.bstr buf ++
        (if (Dg.parseSpec spec.toList).verb = 118 then
          Ly.specialStr (Gen.Decimal.IsNaN d) (Gen.Decimal.Signbit d) false false
        else
          Ly.specialPad (Ly.specialStr (Gen.Decimal.IsNaN d) (Gen.Decimal.Signbit d)
            (Dg.parseSpec spec.toList).printSign (Dg.parseSpec spec.toList).padSign)
            (Dg.parseSpec spec.toList).wid.toInt.toNat (Dg.parseSpec spec.toList).padRight) :=
  Ly.decimal_append_special d buf spec hsp hs hb hv

/-- `appendSpecial` itself, for every width below `2^62` -/
theorem appendSpecial_spec (d : Gen.Decimal) (buf : Go.Bytes) (width : Int64)
    (printSign padSign padRight : Bool) (W : Nat) (hW : width.toInt = W) (hW' : W < 2 ^ 62)
    (hb : buf.size < 2 ^ 62) :
    ∃ r, Gen.Decimal.appendSpecial d buf width printSign padSign padRight = .ok r ∧
      Ly.bstr r = Ly.bstr buf ++ Ly.specialPad
        (Ly.specialStr (Gen.Decimal.IsNaN d) (Gen.Decimal.Signbit d) printSign padSign) W padRight :=
  Ly.appendSpecial_spec d buf width printSign padSign padRight W hW hW' hb

/-- a spec without a verb -/
theorem decimal_append_noverb (d : Gen.Decimal) (buf spec : Go.Bytes) (hs : spec.size < 2 ^ 63)
    (hv : (Dg.parseSpec spec.toList).verb = 0) :
    Gen.Decimal.Append d buf spec = .ok (buf ++ Go.str "%!(NOVERB)") :=
  Ly.decimal_append_noverb d buf spec hs hv

/-- **Totality of `Decimal.Append` (C20, "any format spec").**  Every bit pattern `d` (finite, NaN,
infinite), every buffer below `2^61` bytes, EVERY byte string `spec` below `2^63` bytes:
* `d` finite and the parsed verb present but none of `e E f F g G v` (`Ly.knownVerb`): the call ends
  in the one arm that is not modelled, `fmt.Appendf` of the `%!verb(decimal128.Decimal=…)` notice,
  after `d.String()` has returned normally — no panic of the library's own code;
* otherwise it returns normally and appends at most `Ly.outBound` = 1 012 325 bytes (precision below
  `10^6`, at most 6176 leading zeros and 6147 integer digits, sign, point, exponent; the width is
  below `10^6`). -/
theorem decimal_append_total (d : Gen.Decimal) (buf spec : Go.Bytes) (hs : spec.size < 2 ^ 63)
    (hb : buf.size < 2 ^ 61) :
    ((Dg.parseSpec spec.toList).verb ≠ 0 ∧ Gen.Decimal.isSpecial d = false ∧
        ¬ Ly.knownVerb (Dg.parseSpec spec.toList).verb →
      Gen.Decimal.Append d buf spec = .error (Go.Panic.unmodelled "fmt.Appendf")) ∧
    (¬ ((Dg.parseSpec spec.toList).verb ≠ 0 ∧ Gen.Decimal.isSpecial d = false ∧
        ¬ Ly.knownVerb (Dg.parseSpec spec.toList).verb) →
      ∃ r, Gen.Decimal.Append d buf spec = .ok r ∧ r.size ≤ buf.size + Ly.outBound) :=
  Ly.decimal_append_total d buf spec hs hb

/-- the six float verbs through `Decimal.format`: at most `max width outBound` bytes are appended -/
theorem format_size (d : Gen.Decimal) (buf : Go.Bytes) (args : Gen.formatArgs)
    (hfin : Gen.Decimal.isSpecial d = false)
    (hv : args.verb = 101 ∨ args.verb = 69 ∨ args.verb = 102 ∨ args.verb = 70 ∨
      args.verb = 103 ∨ args.verb = 71)
    (hp : Dg.PrecOK args) (W : Nat) (hW : args.wid.toInt = W) (hW' : W < 2 ^ 62)
    (hb : buf.size < 2 ^ 61) (hprz : args.padRight = true → args.padZero = false) :
    ∃ r, Gen.Decimal.format d buf args = .ok (args, r) ∧ r.size ≤ buf.size + max W Ly.outBound :=
  Ly.format_size d buf args hfin hv hp W hW hW' hb hprz

/-! ## 5. the API functions `Append` and `Format` with a non-negative precision -/

/-- **`Append(buf, d, fmt, prec)`**, `prec ≥ 0`, verbs `e E f g G`: `buf ++ fmtSpec` without flags and
width. -/
theorem append_spec (buf : Go.Bytes) (d : Gen.Decimal) (fmt : UInt8) (prec : Int64)
    (neg : Bool) (c : Nat) (e : Int) (hfin : 𝔳[d] = .fin neg c e)
    (hv : fmt = 101 ∨ fmt = 69 ∨ fmt = 102 ∨ fmt = 103 ∨ fmt = 71)
    (hp0 : 0 ≤ prec.toInt) (hp : prec.toInt < 2 ^ 56) (hb : buf.size < 2 ^ 61) :
    ∃ r, Gen.Append buf d fmt prec = .ok r ∧
      Ly.bstr r = Ly.bstr buf ++ Spec.fmtSpec {} (Ly.chr fmt) (some prec.toInt.toNat) none neg
        (Spec.sliceOf c e) := by
  have hsp : Gen.Decimal.isSpecial d = false := by
    have := Enc.interp_isFin d
    rw [hfin] at this
    simpa [Spec.Val.isFin] using this.symm
  have hdec := Enc.interp_decompose d hsp
  rw [hfin] at hdec
  injection hdec with h1 h2 h3
  have := Ly.append_spec buf d fmt prec hsp hv hp0 hp hb
  rw [← h1, show Ly.coefOf d = c from h2.symm, show Ly.expoOf d = e from h3.symm] at this
  exact this

/-- **`Format(d, fmt, prec)`**, `prec ≥ 0` -/
theorem format_fn_spec (d : Gen.Decimal) (fmt : UInt8) (prec : Int64)
    (neg : Bool) (c : Nat) (e : Int) (hfin : 𝔳[d] = .fin neg c e)
    (hv : fmt = 101 ∨ fmt = 69 ∨ fmt = 102 ∨ fmt = 103 ∨ fmt = 71)
    (hp0 : 0 ≤ prec.toInt) (hp : prec.toInt < 2 ^ 56) :
    ∃ r, Gen.Format d fmt prec = .ok r ∧
      Ly.bstr r = Spec.fmtSpec {} (Ly.chr fmt) (some prec.toInt.toNat) none neg (Spec.sliceOf c e) := by
  have hsp : Gen.Decimal.isSpecial d = false := by
    have := Enc.interp_isFin d
    rw [hfin] at this
    simpa [Spec.Val.isFin] using this.symm
  have hdec := Enc.interp_decompose d hsp
  rw [hfin] at hdec
  injection hdec with h1 h2 h3
  have := Ly.format_fn_spec d fmt prec hsp hv hp0 hp
  rw [← h1, show Ly.coefOf d = c from h2.symm, show Ly.expoOf d = e from h3.symm] at this
  exact this

/-! ## examples: the hypotheses are satisfiable, the conclusions are the expected strings -/

namespace Ex

/-- 999.75 -/
def d999_75 : Gen.Decimal := Gen.compose false (U128.ofNat 99975) (Int16.ofInt (-2 + 6176))
/-- −9.995 -/
def dm9_995 : Gen.Decimal := Gen.compose true (U128.ofNat 9995) (Int16.ofInt (-3 + 6176))
/-- 0.5 -/
def d0_5 : Gen.Decimal := Gen.compose false (U128.ofNat 5) (Int16.ofInt (-1 + 6176))
/-- −Inf -/
def dNegInf : Gen.Decimal := ⟨0, 0xF800000000000000⟩

def args (sharp plus space minus zero : Bool) (verb : UInt8) (prec wid : Int64) : Gen.formatArgs :=
  { forceDP := sharp, printSign := plus, padSign := space, padRight := minus, padZero := zero,
    verb := verb, prec := prec, wid := wid }

/-- `%+09.3g` of 999.75: rounded to three digits it is 1.00e3, so the exponent AFTER rounding (3)
reaches the precision and the exponent form is chosen; zero padding goes after the sign -/
example : ∃ r, Gen.Decimal.format d999_75 #[120] (args false true false false true 103 3 9) =
      .ok (args false true false false true 103 3 9, r) ∧ Ly.bstr r = "x+0001e+03".toList := by
  obtain ⟨r, hr, hs⟩ := format_spec d999_75 #[120] (args false true false false true 103 3 9)
    false 99975 (-2) (by decide) (by decide) (by decide) 9 (by decide) (by decide) (by decide)
    (by decide)
  exact ⟨r, hr, by rw [hs]; decide⟩

/-- `%#-9.3G` of −9.995: the tie 9.99|5 goes to the even neighbour 10.0 (carry into a new digit);
`#` keeps the trailing zeros; `-` pads on the right -/
example : ∃ r, Gen.Decimal.format dm9_995 #[] (args true false false true false 71 3 9) =
      .ok (args true false false true false 71 3 9, r) ∧ Ly.bstr r = "-10.0    ".toList := by
  obtain ⟨r, hr, hs⟩ := format_spec dm9_995 #[] (args true false false true false 71 3 9)
    true 9995 (-3) (by decide) (by decide) (by decide) 9 (by decide) (by decide) (by decide)
    (by decide)
  exact ⟨r, hr, by rw [hs]; decide⟩

/-- `% .0f` of 0.5: a tie with no digit kept rounds to the even neighbour 0 -/
example : ∃ r, Gen.Decimal.format d0_5 #[] (args false false true false false 102 0 0) =
      .ok (args false false true false false 102 0 0, r) ∧ Ly.bstr r = " 0".toList := by
  obtain ⟨r, hr, hs⟩ := format_spec d0_5 #[] (args false false true false false 102 0 0)
    false 5 (-1) (by decide) (by decide) (by decide) 0 (by decide) (by decide) (by decide)
    (by decide)
  exact ⟨r, hr, by rw [hs]; decide⟩

/-- `%e` without precision (6 digits) of 999.75 -/
example : ∃ r, Gen.Decimal.format d999_75 #[] (args false false false false false 101 (-1) 0) =
      .ok (args false false false false false 101 (-1) 0, r) ∧
      Ly.bstr r = "9.997500e+02".toList := by
  obtain ⟨r, hr, hs⟩ := format_spec d999_75 #[] (args false false false false false 101 (-1) 0)
    false 99975 (-2) (by decide) (by decide) (by decide) 0 (by decide) (by decide) (by decide)
    (by decide)
  exact ⟨r, hr, by rw [hs]; decide⟩

/-- `Decimal.Append(buf, "0-12.2e")` and `"-012.2e"`: the flags `0` and `-` in both orders -/
example : ∃ r, Gen.Decimal.Append d999_75 #[120] "0-12.2e".toUTF8.data = .ok r ∧
      Ly.bstr r = "x1.00e+03    ".toList := by
  obtain ⟨r, hr, hs⟩ := decimal_append_spec d999_75 #[120] "0-12.2e".toUTF8.data false 99975 (-2)
    (by decide) (by decide) (by decide) (by decide)
  exact ⟨r, hr, by rw [hs]; decide⟩

example : ∃ r, Gen.Decimal.Append d999_75 #[120] "-012.2e".toUTF8.data = .ok r ∧
      Ly.bstr r = "x1.00e+03    ".toList := by
  obtain ⟨r, hr, hs⟩ := decimal_append_spec d999_75 #[120] "-012.2e".toUTF8.data false 99975 (-2)
    (by decide) (by decide) (by decide) (by decide)
  exact ⟨r, hr, by rw [hs]; decide⟩

/-- `Decimal.Append(buf, "08f")` of −Inf: blanks, not zeros -/
example : ∃ r, Gen.Decimal.Append dNegInf #[] "08f".toUTF8.data = .ok r ∧
      Ly.bstr r = "    -Inf".toList := by
  obtain ⟨r, hr, hs⟩ := decimal_append_special dNegInf #[] "08f".toUTF8.data (by decide)
    (by decide) (by decide) (by decide)
  exact ⟨r, hr, by rw [hs]; decide⟩

/-- `Format(999.75, 'g', 3)` = `1e+03` -/
example : ∃ r, Gen.Format d999_75 103 3 = .ok r ∧ Ly.bstr r = "1e+03".toList := by
  obtain ⟨r, hr, hs⟩ := format_fn_spec d999_75 103 3 false 99975 (-2) (by decide) (by decide)
    (by decide) (by decide)
  exact ⟨r, hr, by rw [hs]; decide⟩

/-- `pad`: `x-1.5` at offset 1 to width 7 with the `0` flag: zeros after the sign, `x` untouched -/
example : ∃ r, Gen.digits.pad { (default : Gen.digits) with neg := true }
      ((#[120] : Go.Bytes) ++ (([45] : List UInt8) ++ [49, 46, 53]).toArray) 1 7 false false false true =
        .ok ({ (default : Gen.digits) with neg := true }, r) ∧ Ly.bstr r = "x-0001.5".toList := by
  obtain ⟨r, hr, hs⟩ := pad_spec { (default : Gen.digits) with neg := true } #[120] [45]
    [49, 46, 53] 1 7 false false false true 7 (by decide) (by decide) (by decide) (by decide)
    (by decide) (by decide)
  exact ⟨r, hr, by rw [hs]; decide⟩

/-- the `0`-with-`-` defect on a concrete input: `1` to width 4 gives `1000` -/
example : Gen.digits.pad (default : Gen.digits) ((#[] : Go.Bytes) ++ ([49] : List UInt8).toArray)
    0 4 false false true true = .ok ((default : Gen.digits), #[49, 48, 48, 48]) := by
  rw [pad_zero_minus (default : Gen.digits) #[] [49] 0 4 false false 4 (by decide) (by decide)
    (by decide) (by decide) (by decide) (by decide)]
  rfl

/-- regression for the precision-wrap defect (fixed in /repo commit 1d99a24): the precision numeral
`1` followed by 25 zeros used to parse to 8446744073709551616; it now saturates to −1 (absent) -/
theorem precision_saturates :
    (Dg.parseSpec (".1000000".toUTF8.data.toList ++ List.replicate 19 48 ++ [102])).prec = -1 := by
  decide

/-- … and `Decimal.Append` with that spec prints 999.75 with the default precision -/
example : ∃ r, Gen.Decimal.Append d999_75 #[]
      (".1000000".toUTF8.data.toList ++ List.replicate 19 48 ++ [102]).toArray = .ok r ∧
      Ly.bstr r = "999.750000".toList := by
  obtain ⟨r, hr, hs⟩ := decimal_append_spec d999_75 #[]
    (".1000000".toUTF8.data.toList ++ List.replicate 19 48 ++ [102]).toArray false 99975 (-2)
    (by decide) (by decide) (by decide) (by decide)
  exact ⟨r, hr, by rw [hs]; decide⟩

/-- an unknown verb ends in the unmodelled `fmt.Appendf` arm, everything else returns normally -/
example : Gen.Decimal.Append d999_75 #[] "8.3q".toUTF8.data =
    .error (Go.Panic.unmodelled "fmt.Appendf") :=
  (decimal_append_total d999_75 #[] "8.3q".toUTF8.data (by decide) (by decide)).1
    ⟨by decide, by decide, by unfold Ly.knownVerb; decide⟩

/-- `fmtE` / `fmtF` on the record `Decimal.digits` produces for 999.75 -/
example : ∃ (d : Gen.digits) (r : Go.Bytes), Dg.WF d ∧
    Gen.digits.fmtE d #[] 6 15 true false true true false false 69 = .ok (d, r) ∧
    Ly.bstr r = "   9.997500E+02".toList := by
  obtain ⟨d, _, hwf, hneg, hs, hx0, hdp, hz⟩ :=
    Ly.digits_fin d999_75 (default : Gen.digits) (by decide)
  have hsl : Dg.slice d = ⟨[9, 9, 9, 7, 5], 3⟩ := by rw [hs]; decide
  have hn : d.ndig.toInt = 5 := by
    have := congrArg (fun s => s.ds.length) hsl
    simp only [Dg.slice, Dg.msd_length, List.length_cons, List.length_nil] at this
    have := hwf.n0
    show d.ndig.toInt = 5
    omega
  have hdp' : d.exp.toInt + d.ndig.toInt = 3 := congrArg Spec.Slice.dp hsl
  have hx : (Ly.expOf d).natAbs < 10000 := by unfold Ly.expOf; split <;> omega
  obtain ⟨r, hr, hstr⟩ := fmtE_layout d hwf #[] 6 15 true false true true false false 69
    ⟨by omega, by omega⟩ (by decide) (by decide) (by rw [hn]; decide) (by omega) hx 15
    (by decide) (by decide) (by decide) (by decide)
  refine ⟨d, r, hwf, hr, ?_⟩
  rw [hstr, hsl, hneg]; decide

example : ∃ (d : Gen.digits) (r : Go.Bytes), Dg.WF d ∧
    Gen.digits.fmtF d #[] 3 10 false true false false true = .ok (d, r) ∧
    Ly.bstr r = "+00999.750".toList := by
  obtain ⟨d, _, hwf, hneg, hs, hx0, hdp, hz⟩ :=
    Ly.digits_fin d999_75 (default : Gen.digits) (by decide)
  have hsl : Dg.slice d = ⟨[9, 9, 9, 7, 5], 3⟩ := by rw [hs]; decide
  have hn : d.ndig.toInt = 5 := by
    have := congrArg (fun s => s.ds.length) hsl
    simp only [Dg.slice, Dg.msd_length, List.length_cons, List.length_nil] at this
    have := hwf.n0
    show d.ndig.toInt = 5
    omega
  have hdp' : d.exp.toInt + d.ndig.toInt = 3 := congrArg Spec.Slice.dp hsl
  obtain ⟨r, hr, hstr⟩ := fmtF_layout d hwf #[] 3 10 false true false false true
    (by omega) (by omega) (by decide) (by decide) (Or.inr (by
      have : (3 : Int64).toInt = 3 := by decide
      omega)) 10 (by decide) (by decide) (by decide) (by decide)
  refine ⟨d, r, hwf, hr, ?_⟩
  have hns : Ly.nslice d = ⟨[9, 9, 9, 7, 5], 3⟩ := by
    unfold Ly.nslice; rw [if_neg (by omega)]; exact hsl
  rw [hstr, hns, hneg]; decide

end Ex

end Props.C07
