/-
  Line-protocol encoding shared by the Go harness (verif_hooks.go) and the Lean oracle.
  Hand-written, core-only.
-/
import D128.Go.Prelude

namespace Go

class Codec (α : Type) where
  enc : α → String
  dec : String → Option α

namespace Codec

def hexDigit (n : Nat) : Char :=
  if n < 10 then Char.ofNat (48 + n) else Char.ofNat (87 + n)

def hexN (digits : Nat) (v : Nat) : String :=
  String.ofList ((List.range digits).reverse.map fun i => hexDigit (v / 16^i % 16))

def hex16 (w : UInt64) : String := hexN 16 w.toNat

def hexVal (c : Char) : Option Nat :=
  if '0' ≤ c ∧ c ≤ '9' then some (c.toNat - 48)
  else if 'a' ≤ c ∧ c ≤ 'f' then some (c.toNat - 87)
  else if 'A' ≤ c ∧ c ≤ 'F' then some (c.toNat - 55)
  else none

def parseHex (s : String) : Option Nat :=
  s.toList.foldl (fun acc c => do let a ← acc; let d ← hexVal c; pure (a * 16 + d)) (some 0)

/-- `n` words from a big-endian hex string of 16·n digits; result little-endian -/
def words (s : String) (n : Nat) : Option (Array UInt64) := do
  if s.length != 16 * n then none
  let v ← parseHex s
  pure ((Array.range n).map fun i => UInt64.ofNat (v / 2^(64*i) % 2^64))

def decInt (s : String) : Option Int := s.toInt?

instance : Codec UInt64 := ⟨fun x => toString x.toNat, fun s => do let n ← s.toNat?; pure (UInt64.ofNat n)⟩
instance : Codec UInt32 := ⟨fun x => toString x.toNat, fun s => do let n ← s.toNat?; pure (UInt32.ofNat n)⟩
instance : Codec UInt16 := ⟨fun x => toString x.toNat, fun s => do let n ← s.toNat?; pure (UInt16.ofNat n)⟩
instance : Codec UInt8 := ⟨fun x => toString x.toNat, fun s => do let n ← s.toNat?; pure (UInt8.ofNat n)⟩
instance : Codec Int64 := ⟨fun x => toString x.toInt, fun s => do let n ← decInt s; pure (Int64.ofInt n)⟩
instance : Codec Int32 := ⟨fun x => toString x.toInt, fun s => do let n ← decInt s; pure (Int32.ofInt n)⟩
instance : Codec Int16 := ⟨fun x => toString x.toInt, fun s => do let n ← decInt s; pure (Int16.ofInt n)⟩
instance : Codec Int8 := ⟨fun x => toString x.toInt, fun s => do let n ← decInt s; pure (Int8.ofInt n)⟩
instance : Codec Bool := ⟨fun b => if b then "T" else "F", fun s => if s == "T" then some true else if s == "F" then some false else none⟩

def encBytes (b : Array UInt8) : String :=
  "x" ++ String.ofList (b.toList.flatMap fun x => [hexDigit (x.toNat / 16), hexDigit (x.toNat % 16)])

def decBytes (s : String) : Option (Array UInt8) := do
  let cs := (if s.startsWith "x" then s.drop 1 else s.toSlice).toString.toList
  if cs.length % 2 != 0 then none
  let rec go : List Char → Array UInt8 → Option (Array UInt8)
    | a :: b :: rest, acc => do
        let x ← hexVal a; let y ← hexVal b
        go rest (acc.push (UInt8.ofNat (x * 16 + y)))
    | [], acc => some acc
    | _, _ => none
  go cs #[]

instance : Codec Bytes := ⟨encBytes, decBytes⟩

instance {n : Nat} : Codec (Vector UInt8 n) where
  enc v := encBytes v.toArray
  dec s := do
    let b ← decBytes s
    if h : b.size = n then pure ⟨b, h⟩ else none

instance : Codec U128 where
  enc n := hex16 n.w1 ++ hex16 n.w0
  dec s := do let w ← words s 2; pure ⟨w[0]!, w[1]!⟩
instance : Codec U192 where
  enc n := hex16 n.w2 ++ hex16 n.w1 ++ hex16 n.w0
  dec s := do let w ← words s 3; pure ⟨w[0]!, w[1]!, w[2]!⟩
instance : Codec U256 where
  enc n := hex16 n.w3 ++ hex16 n.w2 ++ hex16 n.w1 ++ hex16 n.w0
  dec s := do let w ← words s 4; pure ⟨w[0]!, w[1]!, w[2]!, w[3]!⟩
instance : Codec U384 where
  enc n := hex16 n.w5 ++ hex16 n.w4 ++ hex16 n.w3 ++ hex16 n.w2 ++ hex16 n.w1 ++ hex16 n.w0
  dec s := do let w ← words s 6; pure ⟨w[0]!, w[1]!, w[2]!, w[3]!, w[4]!, w[5]!⟩

instance : Codec Err where
  enc
    | .nil => "nil"
    | .parseNumberRangeError => "parseNumberRangeError"
    | .parseNumberSyntaxError => "parseNumberSyntaxError"
    | .parseRangeError => "parseRangeError"
    | .parseSyntaxError => "parseSyntaxError"
    | .composeFormError => "composeFormError"
    | .composeRangeError => "composeRangeError"
    | .errorsNew => "errorsNew"
    | .jsonUnsupportedValue => "jsonUnsupportedValue"
    | .jsonUnmarshalType => "jsonUnmarshalType"
    | .ioEOF => "ioEOF"
    | .ioErrUnexpectedEOF => "ioErrUnexpectedEOF"
  dec s := match s with
    | "nil" => some .nil
    | "parseNumberRangeError" => some .parseNumberRangeError
    | "parseNumberSyntaxError" => some .parseNumberSyntaxError
    | "parseRangeError" => some .parseRangeError
    | "parseSyntaxError" => some .parseSyntaxError
    | "composeFormError" => some .composeFormError
    | "composeRangeError" => some .composeRangeError
    | "errorsNew" => some .errorsNew
    | "jsonUnsupportedValue" => some .jsonUnsupportedValue
    | "jsonUnmarshalType" => some .jsonUnmarshalType
    | "ioEOF" => some .ioEOF
    | "ioErrUnexpectedEOF" => some .ioErrUnexpectedEOF
    | _ => none

/-- flatten a result tuple into protocol tokens -/
class EncT (α : Type) where
  encT : α → Array String

instance (priority := low) {α : Type} [Codec α] : EncT α := ⟨fun x => #[Codec.enc x]⟩
instance : EncT Unit := ⟨fun _ => #[]⟩
instance {α β : Type} [Codec α] [EncT β] : EncT (α × β) := ⟨fun p => #[Codec.enc p.1] ++ EncT.encT p.2⟩

def encT {α : Type} [EncT α] (x : α) : Array String := EncT.encT x

def panicName : Panic → String
  | .divZero => "PANIC:divZero"
  | .div64 => "PANIC:div64"
  | .index => "PANIC:index"
  | .slice => "PANIC:slice"
  | .shift => "PANIC:shift"
  | .explicit _ => "PANIC:explicit"
  | .makeslice => "PANIC:makeslice"
  | .unmodelled _ => "PANIC:unmodelled"

end Codec
end Go
