/-
  math/big.Float as seen by the Go→Lean translator (tools/go2lean/big.go, section "big.Float").
  Hand-written, core-only (no Mathlib), part of the trusted base; exercised by the correspondence
  check (`Decimal.Float` and `FromFloat` run through these definitions).

  math/big is TAKEN AS CORRECT: every method is modelled by its documented meaning (the doc comments
  of $GOROOT/src/math/big/float.go), not by its implementation.

  * `*big.Float` is the VALUE `Go.BigFloat`: precision, rounding mode, form (zero / finite / inf),
    sign and — for a finite value — the magnitude as an exact rational.  The accuracy flag (`Acc`) is
    not part of the value: the translated code never reads it (the second result of `Rat` is given,
    it is always `Exact` where the model is defined).
  * Unlike `big.Int`/`big.Rat`, a method that stores into its receiver DEPENDS on the receiver: its
    precision and mode say how the result is rounded ("all operations … round the numeric result
    according to the precision and rounding mode of the result variable"; a result precision of 0 is
    first set from the operands, the mode stays).  So `z.Mul(x, y)` is `Go.BigFloat.Mul z x y`: the
    previous value of the receiver first, the new value of the receiver as the result.
  * All rounding is done by one function, `roundBits`: correct rounding of a positive rational to
    `prec` significant bits in one of math/big's six modes.
  * big.Float's exponent range (MinExp = -2³¹ … MaxExp = 2³¹-1, beyond which results become ±0 / ±Inf)
    is NOT modelled: the model has unbounded exponents.  A Decimal lies within 10^±6210 ⊂ 2^±20700,
    so neither `Decimal.Float` nor `FromFloat` (which only reads its argument) can get near it.
  * NOT modelled: object identity (as for `big.Int`; see Go/Big.lean).  `Decimal.Float(f)` also
    stores its result into a non-nil `f` and returns that same pointer (report.json:
    `big_args_stored`).
  * A `*big.Float` parameter that the function compares with `nil` is an `Option Go.BigFloat`
    (`none` = the nil pointer, token `nil` on the wire).  `new(big.Float)` and a nil argument are NOT
    interchangeable here (`Decimal.Float(nil)` of an infinity has precision 0, of a finite value 128;
    `Decimal.Float(new(big.Float))` has precision 128 in both cases), so the zero-value convention
    of Go/Big.lean is not used.  Any other `*big.Float` is taken to be non-nil.
-/
import D128.Go.Big

namespace Go

/-- the internal `form` of a `big.Float`: ±0, finite non-zero, ±Inf -/
inductive BigFloat.Form where
  | zero | finite | inf
  deriving DecidableEq, Repr, Inhabited

/-- A `big.Float` value.  Invariants kept by every operation below (and checked by the decoder):
    `val = 0` unless `form = finite`; for `form = finite`, `val > 0`, `prec > 0` and `val` is
    `m·2^e` for an integer `m < 2^prec` (exactly representable with `prec` mantissa bits). -/
structure BigFloat where
  /-- `Prec()`: maximum number of mantissa bits; 0 only for ±0 and ±Inf (e.g. `new(big.Float)`) -/
  prec : Nat := 0
  /-- `Mode()`: 0 ToNearestEven, 1 ToNearestAway, 2 ToZero, 3 AwayFromZero, 4 ToNegativeInf,
      5 ToPositiveInf -/
  mode : UInt8 := 0
  form : BigFloat.Form := .zero
  /-- `Signbit()` -/
  neg : Bool := false
  /-- magnitude of a finite value; 0 for the other forms -/
  val : Rat := 0
  deriving DecidableEq, Repr, Inhabited

namespace BigFloat

/-- `big.MaxPrec` -/
def MaxPrec : Nat := 2 ^ 32 - 1

/-- 2^e for an integer e -/
def pow2 (e : Int) : Rat := if e ≥ 0 then ((2 ^ e.toNat : Nat) : Rat) else Rat.divInt 1 (2 ^ (-e).toNat : Nat)

/-- the exponent of `q > 0` in math/big's normal form `q = mant × 2^exp`, `0.5 ≤ mant < 1`,
    i.e. the e with 2^(e-1) ≤ q < 2^e -/
def exponent (q : Rat) : Int :=
  let a := q.num.natAbs
  let b := q.den
  -- 2^(la-1) ≤ a < 2^la, 2^(lb-1) ≤ b < 2^lb: 2^(la-lb-1) < a/b < 2^(la-lb+1)
  let e0 : Int := (Big.bitLen a : Int) - (Big.bitLen b : Int)
  -- q < 2^e0 ?
  let below := if e0 ≥ 0 then a < b * 2 ^ e0.toNat else a * 2 ^ (-e0).toNat < b
  if below then e0 else e0 + 1

/-- the odd part of n > 0 and the number of trailing zero bits: n = odd · 2^tz -/
def oddPart (n : Nat) : Nat × Nat :=
  if n = 0 then (0, 0) else
  let low := n - (n &&& (n - 1))   -- lowest set bit, a power of two
  (n / low, low.log2)

/-- Is the magnitude `q > 0` of the form m·2^e with an integer m < 2^prec, i.e. representable with
    `prec` mantissa bits? -/
def fits (prec : Nat) (q : Rat) : Bool :=
  (q.den &&& (q.den - 1)) == 0 && decide (Big.bitLen (oddPart q.num.natAbs).1 ≤ prec)

/-- Does math/big's `round` increment the truncated mantissa?  `odd`: the truncated mantissa is odd;
    `half`: the discarded part compared with half a unit in the last place; only called for an
    inexact result (discarded part ≠ 0). -/
def roundUp (mode : UInt8) (neg odd : Bool) (half : Ordering) : Bool :=
  match mode with
  | 0 => half == .gt || (half == .eq && odd)   -- ToNearestEven
  | 1 => half != .lt                           -- ToNearestAway
  | 2 => false                                 -- ToZero
  | 3 => true                                  -- AwayFromZero
  | 4 => neg                                   -- ToNegativeInf
  | 5 => !neg                                  -- ToPositiveInf
  | _ => false                                 -- not a RoundingMode (math/big panics "unreachable")

/-- Correct rounding of the magnitude `q > 0` of a number with sign `neg` to `prec > 0` significant
    bits in rounding mode `mode`; the sign matters for the two directed modes only.  The result is a
    magnitude again (the increment may carry into the next binade: the result is then 2^e).
    `q ≤ 0` or `prec = 0` do not occur (see the invariants of `BigFloat`); the result is 0 then.
    A value that fits is returned as it is (math/big: "mantissa fits => nothing to do"); the general
    computation gives the same, the shortcut keeps it cheap for huge precisions. -/
def roundBits (prec : Nat) (mode : UInt8) (neg : Bool) (q : Rat) : Rat :=
  if q ≤ 0 ∨ prec = 0 then 0 else
  if fits prec q then q else
  let a := q.num.natAbs
  let b := q.den
  -- one unit in the last place is 2^(e-prec) =: 2^(-s);  q / ulp = a·2^s / b
  let s : Int := (prec : Int) - exponent q
  let n := if s ≥ 0 then a * 2 ^ s.toNat else a
  let d := if s ≥ 0 then b else b * 2 ^ (-s).toNat
  let m := n / d             -- truncated mantissa, 2^(prec-1) ≤ m < 2^prec
  let r := n % d             -- discarded part, in units of ulp/d
  let m' := if r = 0 then m else if roundUp mode neg (m % 2 == 1) (compare (2 * r) d) then m + 1 else m
  (m' : Rat) * pow2 (-s)

/-- `new(big.Float)`: "The zero (uninitialized) value for a Float is ready to use and represents the
    number +0.0 exactly, with precision 0 and rounding mode ToNearestEven." -/
def new : BigFloat := {}

/-- a `*big.Float` parameter that is compared with nil: is it nil? -/
@[inline] def isNil (p : Option BigFloat) : Bool := p.isNone
/-- the object a non-nil `*big.Float` parameter points to (for `nil`: `new`, never read — the
    translator checks that the pointer is assigned before it is used) -/
@[inline] def ofPtr (p : Option BigFloat) : BigFloat := p.getD new

/-- the value of `z` rounded to `z.prec` bits in mode `z.mode` (math/big's `round`; identity on ±0 and
    ±Inf and on values that fit) -/
def round (z : BigFloat) : BigFloat :=
  match z.form with
  | .finite => { z with val := roundBits z.prec z.mode z.neg z.val }
  | _ => z

/-- `z` set to the number of sign `neg` and magnitude `q ≥ 0`, rounded as `z` prescribes -/
def setVal (z : BigFloat) (neg : Bool) (q : Rat) : BigFloat :=
  if q = 0 then { z with form := .zero, neg := neg, val := 0 }
  else round { z with form := .finite, neg := neg, val := q }

/-- `x.Prec()` -/
@[inline] def Prec (x : BigFloat) : UInt64 := UInt64.ofNat x.prec
/-- `x.Mode()` -/
@[inline] def Mode (x : BigFloat) : UInt8 := x.mode
/-- `x.IsInf()` -/
@[inline] def IsInf (x : BigFloat) : Bool := x.form == .inf
/-- `x.Signbit()`: "true if x is negative or negative zero" -/
@[inline] def Signbit (x : BigFloat) : Bool := x.neg
/-- `x.Sign()`: -1 if x < 0, 0 if x is ±0, +1 if x > 0 (±Inf included) -/
def Sign (x : BigFloat) : Int64 := if x.form == .zero then 0 else if x.neg then -1 else 1

/-- `x.MinPrec()`: "the minimum precision required to represent x exactly …  The result is 0 for
    |x| == 0 and |x| == Inf." -/
def MinPrec (x : BigFloat) : UInt64 :=
  match x.form with
  | .finite => UInt64.ofNat (Big.bitLen (oddPart x.val.num.natAbs).1)   -- den is a power of two
  | _ => 0

/-- `z.SetPrec(prec)`: "sets z's precision to prec and returns the (possibly) rounded value of z.
    Rounding occurs according to z's rounding mode if the mantissa cannot be represented in prec bits
    without loss of precision.  SetPrec(0) maps all finite values to ±0; infinite values remain
    unchanged.  If prec > MaxPrec, it is set to MaxPrec." -/
def SetPrec (z : BigFloat) (prec : UInt64) : BigFloat :=
  if prec = 0 then
    match z.form with
    | .finite => { z with prec := 0, form := .zero, val := 0 }
    | _ => { z with prec := 0 }
  else round { z with prec := min prec.toNat MaxPrec }

/-- `z.SetMode(mode)`: "z remains unchanged otherwise" -/
@[inline] def SetMode (z : BigFloat) (mode : UInt8) : BigFloat := { z with mode := mode }

/-- `z.SetInf(signbit)`: "The precision of z is unchanged" -/
def SetInf (z : BigFloat) (signbit : Bool) : BigFloat := { z with form := .inf, neg := signbit, val := 0 }

/-- `z.SetUint64(x)`: "the (possibly rounded) value of x …  If z's precision is 0, it is changed to
    64 (and rounding will have no effect)." -/
def SetUint64 (z : BigFloat) (x : UInt64) : BigFloat :=
  setVal { z with prec := if z.prec = 0 then 64 else z.prec } false (x.toNat : Rat)

/-- `z.SetInt64(x)`: as `SetUint64` -/
def SetInt64 (z : BigFloat) (x : Int64) : BigFloat :=
  setVal { z with prec := if z.prec = 0 then 64 else z.prec } (x < 0) (x.toInt.natAbs : Rat)

/-- `z.SetInt(x)`: "the (possibly rounded) value of x …  If z's precision is 0, it is changed to the
    larger of x.BitLen() or 64 (and rounding will have no effect)." -/
def SetInt (z : BigFloat) (x : BigInt) : BigFloat :=
  setVal { z with prec := if z.prec = 0 then max (Big.bitLen x.natAbs) 64 else z.prec } (x < 0) (x.natAbs : Rat)

/-- `z.Set(x)`: "the (possibly rounded) value of x …  If z's precision is 0, it is changed to the
    precision of x before setting z (and rounding will have no effect).  Rounding is performed
    according to z's precision and rounding mode".  (For `z.Set(z)` this is the identity, as in Go.) -/
def Set (z x : BigFloat) : BigFloat :=
  round { z with prec := if z.prec = 0 then x.prec else z.prec, form := x.form, neg := x.neg, val := x.val }

/-- `z.Neg(x)`: "the (possibly rounded) value of x with its sign negated": `Set`, then the sign is
    flipped — the directed modes round with the sign of `x`. -/
def Neg (z x : BigFloat) : BigFloat :=
  let r := Set z x
  { r with neg := !r.neg }

/-- `z.Abs(x)`: "the (possibly rounded) value |x|": `Set`, then the sign is cleared -/
def Abs (z x : BigFloat) : BigFloat := { Set z x with neg := false }

/-- the value `math/big` panics with (`big.ErrNaN`, an error value; `PANIC:explicit` on the wire, see
    `verifPanic` in the hooks) -/
def errNaN (msg : String) : Panic := .explicit msg

/-- precision of the result of a binary operation: "If the provided result precision is 0, it is set
    to the precision of the argument with the largest precision value before any rounding takes
    place, and the rounding mode remains unchanged." -/
def binPrec (z x y : BigFloat) : BigFloat := { z with prec := if z.prec = 0 then max x.prec y.prec else z.prec }

/-- `z.Mul(x, y)`: "the rounded product x*y …  Mul panics with ErrNaN if one operand is zero and the
    other operand an infinity."  The sign is the exclusive or of the signs (also for ±0 and ±Inf). -/
def Mul (z x y : BigFloat) : GoM BigFloat :=
  let z := binPrec z x y
  let neg := x.neg != y.neg
  match x.form, y.form with
  | .finite, .finite => pure (setVal z neg (x.val * y.val))
  | .zero, .inf | .inf, .zero => throw (errNaN "multiplication of zero with infinity")
  | .inf, _ | _, .inf => pure { z with form := .inf, neg := neg, val := 0 }
  | _, _ => pure { z with form := .zero, neg := neg, val := 0 }

/-- `z.Quo(x, y)`: "the rounded quotient x/y …  Quo panics with ErrNaN if both operands are zero or
    infinities."  x/±0 = ±Inf for x ≠ 0, x/±Inf = ±0 for finite x. -/
def Quo (z x y : BigFloat) : GoM BigFloat :=
  let z := binPrec z x y
  let neg := x.neg != y.neg
  match x.form, y.form with
  | .finite, .finite => pure (setVal z neg (x.val / y.val))
  | .zero, .zero | .inf, .inf => throw (errNaN "division of zero by zero or infinity by infinity")
  | .zero, _ | _, .inf => pure { z with form := .zero, neg := neg, val := 0 }
  | _, _ => pure { z with form := .inf, neg := neg, val := 0 }

/-- `x.Rat(nil)`: "the rational number corresponding to x; or nil if x is an infinity.  The result is
    Exact if x is not an Inf."  (the sign of a zero is lost).  A nil `*big.Rat` is not a value of the
    model: the model ends there (`Panic.unmodelled` is not a Go panic).  Second result: the
    `Accuracy` (Below = -1, Exact = 0, Above = +1). -/
def Rat (x : BigFloat) : GoM (BigRat × Int8) :=
  match x.form with
  | .zero => pure (0, 0)
  | .finite => pure (if x.neg then -x.val else x.val, 0)
  | .inf => throw (.unmodelled "big.Float.Rat of an infinity (nil result)")

/-- the invariants stated at `BigFloat`, as a decidable predicate (the decoder below only accepts
    tokens that satisfy it) -/
def valid (x : BigFloat) : Bool :=
  decide (x.prec ≤ MaxPrec) && decide (x.mode ≤ 5) &&
  match x.form with
  | .finite => decide (0 < x.val) && decide (0 < x.prec) && fits x.prec x.val
  | _ => x.val == 0

end BigFloat

/-! ## kernel-checked instances (values taken from math/big) -/

section
open BigFloat

private def mk (prec : Nat) (mode : UInt8) : BigFloat := { prec := prec, mode := mode }
private def fin (prec : Nat) (mode : UInt8) (neg : Bool) (q : Rat) : BigFloat :=
  { prec := prec, mode := mode, form := .finite, neg := neg, val := q }

-- 11 = 1011b to 2 bits: 12 (nearest), 8 (to zero), 12 (away); 10 = 1010b to 2 bits is a tie: 8 (even), 12 (away)
example : roundBits 2 0 false 11 = 12 ∧ roundBits 2 2 false 11 = 8 ∧ roundBits 2 3 false 11 = 12
    ∧ roundBits 2 0 false 10 = 8 ∧ roundBits 2 1 false 10 = 12 ∧ roundBits 2 0 false 14 = 16
    ∧ roundBits 2 4 false 11 = 8 ∧ roundBits 2 4 true 11 = 12 ∧ roundBits 2 5 false 11 = 12 ∧ roundBits 2 5 true 11 = 8
    ∧ roundBits 1 0 false 3 = 4 ∧ roundBits 3 0 false 15 = 16 ∧ roundBits 53 0 false 7 = 7 := by decide +kernel
example : roundBits 2 0 false (Rat.divInt 11 64) = Rat.divInt 3 16 ∧ roundBits 1 0 false (Rat.divInt 1 3) = Rat.divInt 1 4
    ∧ roundBits 2 0 false (Rat.divInt 1 3) = Rat.divInt 3 8 ∧ roundBits 4 5 false (Rat.divInt 1 10) = Rat.divInt 13 128 := by decide +kernel
example : exponent 1 = 1 ∧ exponent 3 = 2 ∧ exponent 4 = 3 ∧ exponent (Rat.divInt 1 2) = 0 ∧ exponent (Rat.divInt 1 3) = -1
    ∧ exponent (Rat.divInt 255 256) = 0 ∧ exponent (Rat.divInt 5 2) = 2 := by decide +kernel
example : oddPart 12 = (3, 2) ∧ oddPart 1 = (1, 0) ∧ oddPart 7 = (7, 0) ∧ oddPart 1024 = (1, 10)
    ∧ fits 2 12 ∧ !fits 1 12 ∧ fits 3 (Rat.divInt 5 64) ∧ !fits 2 (Rat.divInt 5 64) ∧ !fits 100 (Rat.divInt 1 3) := by decide +kernel
-- new(big.Float).SetPrec(128).SetUint64(5): 5 with precision 128; new(big.Float).SetUint64(5): precision 64
example : SetUint64 (SetPrec new 128) 5 = fin 128 0 false 5 ∧ SetUint64 new 5 = fin 64 0 false 5
    ∧ SetUint64 (mk 2 0) 5 = fin 2 0 false 4 ∧ SetUint64 (mk 2 3) 5 = fin 2 3 false 6
    ∧ SetUint64 new 0 = { mk 64 0 with form := .zero } := by decide +kernel
example : SetInt new (-(2 ^ 100)) = fin 101 0 true (2 ^ 100 : Nat) ∧ SetInt new 7 = fin 64 0 false 7
    ∧ SetInt (mk 2 4) (-7) = fin 2 4 true 8 ∧ SetInt (mk 2 5) (-7) = fin 2 5 true 6 := by decide +kernel
example : (SetInf new true).prec = 0 ∧ IsInf (SetInf new true) ∧ Sign (SetInf new true) = -1
    ∧ Sign new = 0 ∧ Signbit (Neg new new) = true ∧ Sign (Neg new new) = 0 := by decide +kernel
example : Set new (fin 7 3 true 5) = fin 7 0 true 5 ∧ Set (mk 2 5) (fin 7 3 true 5) = fin 2 5 true 4
    ∧ Neg (mk 2 5) (fin 7 3 true 5) = fin 2 5 false 4 ∧ SetPrec (fin 7 3 true 5) 0 = { mk 0 3 with neg := true }
    ∧ SetPrec (fin 7 3 true 5) 2 = fin 2 3 true 6 ∧ MinPrec (fin 7 3 true 5) = 3 ∧ MinPrec (fin 7 0 false 12) = 2
    ∧ MinPrec new = 0 := by decide +kernel
example : (Mul new (fin 3 0 false 5) (fin 4 0 true 3)).toOption = some (fin 4 0 true 15)
    ∧ (Mul (mk 3 0) (fin 3 0 false 5) (fin 4 0 true 3)).toOption = some (fin 3 0 true 16)
    ∧ (Quo (mk 3 0) (fin 3 0 false 1) (fin 4 0 true 3)).toOption = some (fin 3 0 true (Rat.divInt 5 16))
    ∧ (Mul new new (SetInf new false)).toOption = none ∧ (Quo new new new).toOption = none
    ∧ (Quo new (fin 3 0 true 1) new).toOption = some (SetInf (mk 3 0) true)
    ∧ (Rat (fin 3 0 true 5)).toOption = some (-5, 0) ∧ (Rat (SetInf new false)).toOption = none := by decide +kernel

end

/-! ## line protocol: `prec:mode:value`, value one of `+Inf`, `-Inf`, `0`, `-0`, `[-]m*2^e` with `m` a
    positive decimal integer of at most `prec` bits (odd in encoder output) and `e` a decimal integer;
    the nil pointer is `nil` (only for `Option BigFloat`) -/

namespace Codec

def encBigFloat (x : BigFloat) : String :=
  let body := match x.form with
    | .inf => if x.neg then "-Inf" else "+Inf"
    | .zero => if x.neg then "-0" else "0"
    | .finite =>
      -- val = num/den with den = 2^k
      let (m, tz) := BigFloat.oddPart x.val.num.natAbs
      let e : Int := if x.val.den = 1 then (tz : Int) else -(x.val.den.log2 : Int)
      let m := if x.val.den = 1 then m else x.val.num.natAbs
      (if x.neg then "-" else "") ++ toString m ++ "*2^" ++ toString e
  toString x.prec ++ ":" ++ toString x.mode.toNat ++ ":" ++ body

def decBigFloat (s : String) : Option BigFloat :=
  match s.splitOn ":" with
  | [p, m, body] => do
    let prec ← p.toNat?
    let mode ← m.toNat?
    if prec > BigFloat.MaxPrec ∨ mode > 5 then none
    let z : BigFloat := { prec := prec, mode := UInt8.ofNat mode }
    match body with
    | "+Inf" => pure { z with form := .inf }
    | "-Inf" => pure { z with form := .inf, neg := true }
    | "0" => pure z
    | "-0" => pure { z with neg := true }
    | _ =>
      let (neg, body) := if body.startsWith "-" then (true, (body.drop 1).toString) else (false, body)
      match body.splitOn "*2^" with
      | [ms, es] => do
        let mant ← ms.toNat?
        let e ← decInt es
        if mant = 0 ∨ Big.bitLen mant > prec then none
        pure { z with form := .finite, neg := neg, val := (mant : Rat) * BigFloat.pow2 e }
      | _ => none
  | _ => none

instance : Codec BigFloat := ⟨encBigFloat, decBigFloat⟩

/-- a `*big.Float` argument that may be nil -/
instance : Codec (Option BigFloat) where
  enc | none => "nil" | some x => encBigFloat x
  dec s := if s == "nil" then some none else (decBigFloat s).map some

example : encBigFloat (BigFloat.SetUint64 BigFloat.new 12) = "64:0:3*2^2"
    ∧ encBigFloat { prec := 5, mode := 3, form := .finite, neg := true, val := Rat.divInt 5 16 } = "5:3:-5*2^-4"
    ∧ encBigFloat (BigFloat.SetInf BigFloat.new true) = "0:0:-Inf" ∧ encBigFloat BigFloat.new = "0:0:0" := by decide +kernel

end Codec
end Go
