/-
  math/big as seen by the Go→Lean translator (tools/go2lean/big.go).
  Hand-written, core-only (no Mathlib), part of the trusted base; exercised by the correspondence
  check (FromInt, FromRat, Decimal.Int, Decimal.Rat, Decimal.Compose run through these definitions).

  math/big is TAKEN AS CORRECT: every method is modelled by its documented mathematical meaning,
  not by its implementation.

  * `*big.Int` is the VALUE `Go.BigInt = Int`, `*big.Rat` the VALUE `Go.BigRat = Rat` (core `Rat`:
    lowest terms, denominator > 0 — what `Num`/`Denom` of a `big.Rat` built through its API return).
  * A method that stores into its receiver and returns it (`z.Mul(x, y)`) is a pure function of its
    arguments giving the new value of the receiver (`Go.BigInt.Mul x y`); the previous value of the
    receiver never matters.  `z.QuoRem(x, y, r)` gives the pair (new `z`, new `r`).  The translator
    assigns the result(s) to the variable(s) the receiver (and `r`) denote.
  * `new(big.Int)`, `new(big.Rat)` are the value 0; `big.NewInt(k)` is `k`.
  * NOT modelled: object identity.  Two names for one object are refused by the translator; the one
    documented case — `Decimal.Int(i)` / `Decimal.Rat(r)` also store the result into a non-nil
    argument and return that same pointer — is runtime behaviour the value model does not exhibit
    (report.json: `big_args_stored`).  A nil argument of these two is represented by the value 0
    (`Codec.decNil`): the functions start with `if p == nil { p = new(T) }`, which is the identity
    under this representation.
  * `big.Word` is `uint`, taken to be 64 bits wide like everywhere else in the model.
-/
import D128.Go.Prelude
import D128.Go.Codec

namespace Go

abbrev BigInt := Int
abbrev BigRat := Rat
/-- `[]big.Word` as returned by `Bits()`; read-only in translated code -/
abbrev BigWords := Array UInt64

/-- number of bits of `n` (0 for 0) -/
def Big.bitLen (n : Nat) : Nat := if n = 0 then 0 else n.log2 + 1

/-- the message math/big panics with (`nat.div`, `Rat.SetFrac`); a `string`, hence
    `PANIC:explicit` on the wire -/
def Big.divisionByZero : Panic := .explicit "division by zero"

namespace BigInt

/-- `big.NewInt(x)` -/
@[inline] def NewInt (x : Int64) : BigInt := x.toInt

/-- `x.Sign()`: -1, 0, +1 -/
def Sign (x : BigInt) : Int64 := if x < 0 then -1 else if x = 0 then 0 else 1

/-- `x.BitLen()`: length of |x| in bits; 0 for 0 -/
def BitLen (x : BigInt) : Int64 := Int64.ofNat (Big.bitLen x.natAbs)

/-- `x.Cmp(y)`: -1, 0, +1 -/
def Cmp (x y : BigInt) : Int64 := if x < y then -1 else if x = y then 0 else 1

/-- `x.Bits()`: |x| as little-endian 64-bit words without leading zero words (empty for 0) -/
def Bits (x : BigInt) : BigWords :=
  Array.ofFn (n := (Big.bitLen x.natAbs + 63) / 64) fun i =>
    UInt64.ofNat (x.natAbs / 2 ^ (64 * i.val) % 2 ^ 64)

/-- `len(b)` for `b []big.Word` -/
@[inline] def wlen (b : BigWords) : Int64 := Int64.ofNat b.size

/-- `b[i]` for `b []big.Word` -/
@[inline] def wget (b : BigWords) (i : Int) : GoM UInt64 :=
  if h : 0 ≤ i ∧ i.toNat < b.size then pure (b[i.toNat]'h.2) else throw .index

/-- `x.Bytes()`: |x| as a big-endian byte string without leading zero bytes (empty for 0) -/
def Bytes (x : BigInt) : Go.Bytes :=
  let n := (Big.bitLen x.natAbs + 7) / 8
  Array.ofFn (n := n) fun i => UInt8.ofNat (x.natAbs / 2 ^ (8 * (n - 1 - i.val)) % 256)

/-- `x.Uint64()`: "If x cannot be represented in a uint64, the result is undefined" — the model
    ends there (`Panic.unmodelled` is not a Go panic). -/
def Uint64 (x : BigInt) : GoM UInt64 :=
  if 0 ≤ x ∧ x < 2 ^ 64 then pure (UInt64.ofNat x.toNat)
  else throw (.unmodelled "big.Int.Uint64 of a value outside uint64")

/-- `z.Set(x)` -/
@[inline] def Set (x : BigInt) : BigInt := x
/-- `z.SetUint64(x)` -/
@[inline] def SetUint64 (x : UInt64) : BigInt := Int.ofNat x.toNat
/-- `z.SetInt64(x)` -/
@[inline] def SetInt64 (x : Int64) : BigInt := x.toInt
/-- `z.SetBytes(buf)`: `buf` read as a big-endian unsigned integer -/
def SetBytes (buf : Go.Bytes) : BigInt :=
  Int.ofNat (buf.foldl (fun acc b => acc * 256 + b.toNat) 0)

/-- `z.Lsh(x, n)`: x·2ⁿ (the sign is kept) -/
def Lsh (x : BigInt) (n : UInt64) : BigInt := x * 2 ^ n.toNat

/-- `x` in two's complement with infinitely many sign bits, as (is-negative, bits of x or of ¬x) -/
def twos (x : Int) : Bool × Nat := if x < 0 then (true, (-x - 1).toNat) else (false, x.toNat)

/-- `z.Or(x, y)`: bitwise or of the two's complement representations -/
def Or (x y : BigInt) : BigInt :=
  match twos x, twos y with
  | (false, a), (false, b) => Int.ofNat (a ||| b)
  | (true, a), (true, b) => -(Int.ofNat (a &&& b)) - 1
  -- ¬(¬a ∨ b) = a ∧ ¬b
  | (true, a), (false, b) => -(Int.ofNat (a ^^^ (a &&& b))) - 1
  | (false, a), (true, b) => -(Int.ofNat (b ^^^ (b &&& a))) - 1

/-- `z.Add(x, y)` -/
@[inline] def Add (x y : BigInt) : BigInt := x + y
/-- `z.Sub(x, y)` -/
@[inline] def Sub (x y : BigInt) : BigInt := x - y
/-- `z.Mul(x, y)` -/
@[inline] def Mul (x y : BigInt) : BigInt := x * y
/-- `z.Neg(x)` -/
@[inline] def Neg (x : BigInt) : BigInt := -x
/-- `z.Abs(x)` -/
@[inline] def Abs (x : BigInt) : BigInt := Int.ofNat x.natAbs

/-- `z.Quo(x, y)`: truncated division (like Go's `/`); run-time panic for y = 0 -/
def Quo (x y : BigInt) : GoM BigInt :=
  if y = 0 then throw Big.divisionByZero else pure (Int.tdiv x y)

/-- `z.QuoRem(x, y, r)`: T-division, x = q·y + r with |r| < |y| and r of the sign of x;
    returns (new z, new r); run-time panic for y = 0 -/
def QuoRem (x y : BigInt) : GoM (BigInt × BigInt) :=
  if y = 0 then throw Big.divisionByZero else pure (Int.tdiv x y, Int.tmod x y)

/-- `z.Exp(x, y, nil)`: x^y, and 1 for y ≤ 0 (only the nil modulus is modelled) -/
def Exp (x y : BigInt) : BigInt := if y ≤ 0 then 1 else x ^ y.toNat

end BigInt

namespace BigRat

/-- `x.Sign()` -/
def Sign (x : BigRat) : Int64 := if x.num < 0 then -1 else if x.num = 0 then 0 else 1
/-- `x.Num()`: numerator in lowest terms (carries the sign) -/
@[inline] def Num (x : BigRat) : BigInt := x.num
/-- `x.Denom()`: denominator in lowest terms, > 0 (1 for integers, in particular for `new(big.Rat)`) -/
@[inline] def Denom (x : BigRat) : BigInt := Int.ofNat x.den

/-- `z.Set(x)` -/
@[inline] def Set (x : BigRat) : BigRat := x
/-- `z.SetFrac(a, b)`: a/b; run-time panic for b = 0 -/
def SetFrac (a b : BigInt) : GoM BigRat :=
  if b = 0 then throw Big.divisionByZero else pure (Rat.divInt a b)
/-- `z.SetInt(x)` -/
@[inline] def SetInt (x : BigInt) : BigRat := Rat.divInt x 1
/-- `z.SetUint64(x)` -/
@[inline] def SetUint64 (x : UInt64) : BigRat := Rat.divInt (Int.ofNat x.toNat) 1
/-- `z.Neg(x)` -/
@[inline] def Neg (x : BigRat) : BigRat := -x

end BigRat

/-! ## kernel-checked instances of the definitions above (values taken from math/big) -/

example : BigInt.Or 5 2 = 7 ∧ BigInt.Or (-3) 4 = -3 ∧ BigInt.Or 4 (-3) = -3 ∧ BigInt.Or (-6) (-3) = -1
    ∧ BigInt.Or (-8) 3 = -5 ∧ BigInt.Or 0 (-1) = -1 := by decide
example : (BigInt.QuoRem (-7) 2).toOption = some (-3, -1) ∧ (BigInt.QuoRem 7 (-2)).toOption = some (-3, 1)
    ∧ (BigInt.Quo (-7) 2).toOption = some (-3) ∧ (BigInt.Quo 1 0).toOption = none := by decide
example : BigInt.BitLen 0 = 0 ∧ BigInt.BitLen (-1) = 1 ∧ BigInt.BitLen 255 = 8 ∧ BigInt.BitLen (-256) = 9 := by decide
example : BigInt.Bits 0 = #[] ∧ BigInt.Bits (-(2 ^ 64 + 5)) = #[5, 1] ∧ BigInt.Bits (2 ^ 64 - 1) = #[18446744073709551615] := by
  decide
example : BigInt.Bytes 0 = #[] ∧ BigInt.Bytes (-258) = #[1, 2] ∧ BigInt.SetBytes #[0, 1, 2] = 258
    ∧ BigInt.SetBytes #[] = 0 := by decide
example : BigInt.Exp 10 3 = 1000 ∧ BigInt.Exp 10 0 = 1 ∧ BigInt.Exp 10 (-2) = 1 ∧ BigInt.Exp (-2) 3 = -8
    ∧ BigInt.Lsh (-3) 2 = -12 := by decide
example : BigRat.Num (Rat.divInt 6 (-4)) = -3 ∧ BigRat.Denom (Rat.divInt 6 (-4)) = 2
    ∧ BigRat.Denom (0 : BigRat) = 1 ∧ BigRat.Sign (Rat.divInt (-1) 3) = -1 := by decide

/-! ## line protocol: `*big.Int` as a decimal string, `*big.Rat` as `num/den` -/

namespace Codec

instance : Codec BigInt := ⟨fun x => toString x, fun s => decInt s⟩

instance : Codec BigRat where
  enc r := toString r.num ++ "/" ++ toString r.den
  dec s := match s.splitOn "/" with
    | [n, d] => do
        let n ← decInt n
        let d ← decInt d
        if d ≤ 0 then none else pure (Rat.divInt n d)
    | _ => none

/-- argument of a function that starts with `if p == nil { p = new(T) }`: the token `nil` (a nil
    pointer on the Go side) is the value `zero` -/
def decNil {α : Type} [Codec α] (zero : α) (s : String) : Option α :=
  if s == "nil" then some zero else Codec.dec s

end Codec
end Go
