/-
  Go semantics targeted by the Go→Lean translator (tools/go2lean).
  Hand-written, core-only (no Mathlib), part of the trusted base; exercised by the
  correspondence check (every generated function runs through these definitions).
-/

namespace Go

/-- Run-time panics of the Go code that the model can exhibit. -/
inductive Panic where
  | divZero                 -- integer divide by zero
  | div64                   -- bits.Div64 quotient overflow (y ≤ hi) or y = 0
  | index                   -- index out of range
  | slice                   -- slice bounds out of range
  | shift                   -- negative shift amount
  | explicit (msg : String) -- panic("...")
  | makeslice               -- make([]byte, len, cap) with len < 0, cap < 0 or len > cap
  | unmodelled (what : String)
      -- NOT a Go panic: the model stops here because the Go code calls a function of another package
      -- that the translator does not model (fmt.Appendf, fmt.Sprintf, strconv.FormatInt, …).  The
      -- correspondence oracle skips lines on which the model ends this way.
  deriving Repr, DecidableEq, Inhabited

abbrev GoM := Except Panic

/-- error values of the package, as an enumeration (payload strings dropped). -/
inductive Err where
  | nil
  | parseNumberRangeError
  | parseNumberSyntaxError
  | parseRangeError
  | parseSyntaxError
  | composeFormError
  | composeRangeError
  | errorsNew
  | jsonUnsupportedValue    -- *encoding/json.UnsupportedValueError
  | jsonUnmarshalType       -- *encoding/json.UnmarshalTypeError
  | ioEOF                   -- io.EOF (fmt layer: what fmt.ScanState.ReadRune reports at the end of the input)
  | ioErrUnexpectedEOF      -- io.ErrUnexpectedEOF
  deriving Repr, DecidableEq, Inhabited

/-! ## fixed-width integers -/

class GoInt (α : Type) where
  toInt : α → Int
  ofInt : Int → α
  bits  : Nat
  signed : Bool

instance : GoInt UInt8  := ⟨fun x => x.toNat, fun i => UInt8.ofInt i, 8, false⟩
instance : GoInt UInt16 := ⟨fun x => x.toNat, fun i => UInt16.ofInt i, 16, false⟩
instance : GoInt UInt32 := ⟨fun x => x.toNat, fun i => UInt32.ofInt i, 32, false⟩
instance : GoInt UInt64 := ⟨fun x => x.toNat, fun i => UInt64.ofInt i, 64, false⟩
instance : GoInt Int8   := ⟨Int8.toInt, Int8.ofInt, 8, true⟩
instance : GoInt Int16  := ⟨Int16.toInt, Int16.ofInt, 16, true⟩
instance : GoInt Int32  := ⟨Int32.toInt, Int32.ofInt, 32, true⟩
instance : GoInt Int64  := ⟨Int64.toInt, Int64.ofInt, 64, true⟩

/-- Go conversion `T(x)` between integer types: wrap modulo 2^bits. -/
@[inline] def conv {α β : Type} [GoInt α] [GoInt β] (x : α) : β :=
  GoInt.ofInt (GoInt.toInt x)

/-- integer value of an index / shift-count expression of any integer type -/
@[inline] def idx {α : Type} [GoInt α] (x : α) : Int := GoInt.toInt x

/-! ## shifts: Go gives 0 (or sign fill) once the count reaches the width -/

class GoShift (α : Type) where
  shl : α → Nat → α
  shr : α → Nat → α

instance : GoShift UInt64 where
  shl x s := if s < 64 then x <<< UInt64.ofNat s else 0
  shr x s := if s < 64 then x >>> UInt64.ofNat s else 0
instance : GoShift UInt32 where
  shl x s := if s < 32 then x <<< UInt32.ofNat s else 0
  shr x s := if s < 32 then x >>> UInt32.ofNat s else 0
instance : GoShift UInt16 where
  shl x s := if s < 16 then x <<< UInt16.ofNat s else 0
  shr x s := if s < 16 then x >>> UInt16.ofNat s else 0
instance : GoShift UInt8 where
  shl x s := if s < 8 then x <<< UInt8.ofNat s else 0
  shr x s := if s < 8 then x >>> UInt8.ofNat s else 0
instance : GoShift Int64 where
  shl x s := if s < 64 then x <<< Int64.ofNat s else 0
  shr x s := if s < 64 then x >>> Int64.ofNat s else (if x < 0 then -1 else 0)
instance : GoShift Int32 where
  shl x s := if s < 32 then x <<< Int32.ofNat s else 0
  shr x s := if s < 32 then x >>> Int32.ofNat s else (if x < 0 then -1 else 0)
instance : GoShift Int16 where
  shl x s := if s < 16 then x <<< Int16.ofNat s else 0
  shr x s := if s < 16 then x >>> Int16.ofNat s else (if x < 0 then -1 else 0)
instance : GoShift Int8 where
  shl x s := if s < 8 then x <<< Int8.ofNat s else 0
  shr x s := if s < 8 then x >>> Int8.ofNat s else (if x < 0 then -1 else 0)

/-- `x << s` with an unsigned or constant count -/
@[inline] def shl {α : Type} [GoShift α] (x : α) (s : Int) : α := GoShift.shl x s.toNat
@[inline] def shr {α : Type} [GoShift α] (x : α) (s : Int) : α := GoShift.shr x s.toNat
/-- `x << s` with a signed, non-constant count: panics when negative -/
@[inline] def shlS {α : Type} [GoShift α] (x : α) (s : Int) : GoM α :=
  if s < 0 then throw .shift else pure (GoShift.shl x s.toNat)
@[inline] def shrS {α : Type} [GoShift α] (x : α) (s : Int) : GoM α :=
  if s < 0 then throw .shift else pure (GoShift.shr x s.toNat)

/-! ## division with a non-constant divisor -/

@[inline] def divU64 (a b : UInt64) : GoM UInt64 := if b = 0 then throw .divZero else pure (a / b)
@[inline] def modU64 (a b : UInt64) : GoM UInt64 := if b = 0 then throw .divZero else pure (a % b)
@[inline] def divI64 (a b : Int64) : GoM Int64 := if b = 0 then throw .divZero else pure (a / b)
@[inline] def modI64 (a b : Int64) : GoM Int64 := if b = 0 then throw .divZero else pure (a % b)
@[inline] def divI16 (a b : Int16) : GoM Int16 := if b = 0 then throw .divZero else pure (a / b)
@[inline] def modI16 (a b : Int16) : GoM Int16 := if b = 0 then throw .divZero else pure (a % b)

/-! ## math/bits -/

namespace bits

/-- `bits.Add64`: documented for carry ∈ {0,1}; for other carries the literal Go formula. -/
def Add64 (x y c : UInt64) : UInt64 × UInt64 :=
  if c ≤ 1 then
    let s := x.toNat + y.toNat + c.toNat
    (UInt64.ofNat (s % 2^64), UInt64.ofNat (s / 2^64))
  else
    let sum := x + y + c
    (sum, ((x &&& y) ||| ((x ||| y) &&& ~~~sum)) >>> 63)

/-- `bits.Sub64`: documented for borrow ∈ {0,1}; for other borrows the literal Go formula. -/
def Sub64 (x y b : UInt64) : UInt64 × UInt64 :=
  if b ≤ 1 then
    let s := y.toNat + b.toNat
    if s ≤ x.toNat then (UInt64.ofNat (x.toNat - s), 0)
    else (UInt64.ofNat (2^64 + x.toNat - s), 1)
  else
    let diff := x - y - b
    (diff, ((~~~x &&& y) ||| (~~~(x ^^^ y) &&& diff)) >>> 63)

/-- `bits.Mul64` returns (hi, lo). -/
def Mul64 (x y : UInt64) : UInt64 × UInt64 :=
  let p := x.toNat * y.toNat
  (UInt64.ofNat (p / 2^64), UInt64.ofNat (p % 2^64))

/-- `bits.Div64` returns (quo, rem); panics for y = 0 and for y ≤ hi. -/
def Div64 (hi lo y : UInt64) : GoM (UInt64 × UInt64) :=
  if y = 0 then throw .divZero
  else if y ≤ hi then throw .div64
  else
    let n := hi.toNat * 2^64 + lo.toNat
    pure (UInt64.ofNat (n / y.toNat), UInt64.ofNat (n % y.toNat))

/-- number of bits needed to represent x -/
def Len64 (x : UInt64) : Int64 :=
  if x = 0 then 0 else Int64.ofNat (x.toNat.log2 + 1)

def LeadingZeros64 (x : UInt64) : Int64 := 64 - Len64 x

def tz (n : Nat) : Nat → Nat
  | 0 => 0
  | fuel + 1 => if n % 2 = 1 then 0 else 1 + tz (n / 2) fuel

def TrailingZeros64 (x : UInt64) : Int64 :=
  if x = 0 then 64 else Int64.ofNat (tz x.toNat 64)

end bits

/-! ## arrays, tables, byte strings -/

@[inline] def vget {α : Type} {n : Nat} (v : Vector α n) (i : Int) : GoM α :=
  if h : 0 ≤ i ∧ i.toNat < n then pure (v[i.toNat]'h.2) else throw .index

@[inline] def vset {α : Type} {n : Nat} (v : Vector α n) (i : Int) (x : α) : GoM (Vector α n) :=
  if h : 0 ≤ i ∧ i.toNat < n then pure (v.set i.toNat x h.2) else throw .index

abbrev Bytes := Array UInt8

@[inline] def len (b : Bytes) : Int64 := Int64.ofNat b.size

@[inline] def bget (b : Bytes) (i : Int) : GoM UInt8 :=
  if h : 0 ≤ i ∧ i.toNat < b.size then pure (b[i.toNat]'h.2) else throw .index

@[inline] def bset (b : Bytes) (i : Int) (x : UInt8) : GoM Bytes :=
  if h : 0 ≤ i ∧ i.toNat < b.size then pure (b.set i.toNat x h.2) else throw .index

/-- `b[lo:hi]` for a string or a slice whose capacity equals its length -/
@[inline] def bslice (b : Bytes) (lo hi : Int) : GoM Bytes :=
  if 0 ≤ lo ∧ lo ≤ hi ∧ hi.toNat ≤ b.size then pure (b.extract lo.toNat hi.toNat) else throw .slice

@[inline] def bsliceFrom (b : Bytes) (lo : Int) : GoM Bytes := bslice b lo b.size

def str (s : String) : Bytes := s.toUTF8.data

/-! ## text layer: byte slices as values without spare capacity

  A `[]byte` is modelled by its contents only (`cap b = len b`): `cap(b)` is translated to `Go.len b`,
  `b[:k]` beyond `len b` throws `.slice`, and `append` always behaves as if it re-allocated.  Aliasing
  between slices that share a backing array and stale bytes between `len` and `cap` are not modelled. -/

/-- `a[lo:hi]` for a byte array `a` (read-only use: the result is a copy) -/
@[inline] def vslice {n : Nat} (v : Vector UInt8 n) (lo hi : Int) : GoM Bytes :=
  if 0 ≤ lo ∧ lo ≤ hi ∧ hi.toNat ≤ n then pure (v.toArray.extract lo.toNat hi.toNat) else throw .slice

@[inline] def vsliceFrom {n : Nat} (v : Vector UInt8 n) (lo : Int) : GoM Bytes := vslice v lo n

/-- `make([]byte, len, cap)` (`make([]byte, len)` is `makeBytes len len`): `len` zero bytes -/
@[inline] def makeBytes (len cap : Int) : GoM Bytes :=
  if 0 ≤ len ∧ len ≤ cap then pure (Array.replicate len.toNat (0 : UInt8)) else throw .makeslice

/-- number of bytes `copy(dst, src)` transfers -/
@[inline] def copyLen (dst src : Bytes) : Int64 := Int64.ofNat (min dst.size src.size)

/-- `copy(v[lo:hi], src)` under value semantics: `dst` is the (already bounds-checked) value of
    `v[lo:hi]`, of which only the length is used; the result is `v` with the bytes
    `lo … lo + min (len dst) (len src) - 1` replaced by the first bytes of `src`.  `src` is a value, i.e. it
    was read before anything is written (Go's `copy` has memmove semantics for overlapping slices).
    `copy(v, src)` is `copyInto v 0 v src`. -/
def copyInto (v : Bytes) (lo : Int) (dst src : Bytes) : Bytes :=
  let n := min dst.size src.size
  v.extract 0 lo.toNat ++ src.extract 0 n ++ v.extract (lo.toNat + n) v.size

end Go

/-! ## multi-word integers (`[n]uint64` in Go, little-endian words) -/

structure U128 where
  w0 : UInt64
  w1 : UInt64
  deriving DecidableEq, Repr, Inhabited

structure U192 where
  w0 : UInt64
  w1 : UInt64
  w2 : UInt64
  deriving DecidableEq, Repr, Inhabited

structure U256 where
  w0 : UInt64
  w1 : UInt64
  w2 : UInt64
  w3 : UInt64
  deriving DecidableEq, Repr, Inhabited

structure U384 where
  w0 : UInt64
  w1 : UInt64
  w2 : UInt64
  w3 : UInt64
  w4 : UInt64
  w5 : UInt64
  deriving DecidableEq, Repr, Inhabited

def U128.toNat (n : U128) : Nat := n.w0.toNat + n.w1.toNat * 2^64
def U192.toNat (n : U192) : Nat := n.w0.toNat + n.w1.toNat * 2^64 + n.w2.toNat * 2^128
def U256.toNat (n : U256) : Nat :=
  n.w0.toNat + n.w1.toNat * 2^64 + n.w2.toNat * 2^128 + n.w3.toNat * 2^192
def U384.toNat (n : U384) : Nat :=
  n.w0.toNat + n.w1.toNat * 2^64 + n.w2.toNat * 2^128 + n.w3.toNat * 2^192
    + n.w4.toNat * 2^256 + n.w5.toNat * 2^320

def U128.ofNat (n : Nat) : U128 := ⟨UInt64.ofNat (n % 2^64), UInt64.ofNat (n / 2^64 % 2^64)⟩
def U192.ofNat (n : Nat) : U192 :=
  ⟨UInt64.ofNat (n % 2^64), UInt64.ofNat (n / 2^64 % 2^64), UInt64.ofNat (n / 2^128 % 2^64)⟩
def U256.ofNat (n : Nat) : U256 :=
  ⟨UInt64.ofNat (n % 2^64), UInt64.ofNat (n / 2^64 % 2^64), UInt64.ofNat (n / 2^128 % 2^64),
   UInt64.ofNat (n / 2^192 % 2^64)⟩

/-- package-level state the library reads (never writes) -/
structure Globals where
  DefaultRoundingMode : UInt8
  deriving DecidableEq, Repr, Inhabited
