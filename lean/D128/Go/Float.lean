/-
  Go `float64` / `float32` values as their IEEE 754 bit patterns, and the handful of `math` functions
  and conversions the decimal128 package applies to them.  Hand-written, core-only, executable; part of
  the trusted base of the translation (like `Prelude.lean`) and validated on every run by the
  correspondence check (bit patterns compared exactly).

  Everything that rounds goes through one function, `roundDyadic`: the IEEE nearest-even rounding of
  the exact dyadic number `m · 2^e` into a binary format — this is what the hardware conversion
  `float64(uint64)`, the narrowing `float32(float64)` and `math.Ldexp` (whose only inexact step is one
  multiplication by a power of two into the subnormal range) are specified to compute.
-/
import D128.Go.Prelude
import D128.Go.Codec

namespace Go

/-- a Go `float64`: its 64 bits (`math.Float64bits`) -/
structure F64 where
  bits : UInt64
  deriving DecidableEq, Repr, Inhabited

/-- a Go `float32`: its 32 bits -/
structure F32 where
  bits : UInt32
  deriving DecidableEq, Repr, Inhabited

/-- binary interchange format: `mb` stored mantissa bits, `eb` exponent bits -/
structure BinFmt where
  mb : Nat
  eb : Nat

def fmt64 : BinFmt := ⟨52, 11⟩
def fmt32 : BinFmt := ⟨23, 8⟩

def BinFmt.bias (f : BinFmt) : Int := 2 ^ (f.eb - 1) - 1
def BinFmt.maxBiased (f : BinFmt) : Nat := 2 ^ f.eb - 1
/-- exponent of the least significant bit of a subnormal: value = mant · 2^qmin -/
def BinFmt.qmin (f : BinFmt) : Int := 1 - f.bias - f.mb

/-- bits (without sign) of the nearest-even rounding of `m · 2^e` into format `f`
    (overflow ⇒ infinity, i.e. exponent all ones and zero mantissa) -/
def roundDyadic (f : BinFmt) (m : Nat) (e : Int) : Nat :=
  if m = 0 then 0 else
  let L : Int := Nat.log2 m                      -- m ∈ [2^L, 2^(L+1))
  let q : Int := max (L + e - f.mb) f.qmin        -- exponent of the result's last place
  let M₀ : Nat :=
    if q ≤ e then m * 2 ^ (e - q).toNat
    else
      let s := (q - e).toNat
      let lo := m / 2 ^ s
      let rem := m % 2 ^ s
      let half := 2 ^ (s - 1)
      if rem > half ∨ (rem = half ∧ lo % 2 = 1) then lo + 1 else lo
  -- a carry out of the mantissa moves to the next binade
  let (M, q) := if M₀ = 2 ^ (f.mb + 1) then (2 ^ f.mb, q + 1) else (M₀, q)
  if M < 2 ^ f.mb then M                          -- subnormal (q = qmin), biased exponent 0
  else
    let biased : Int := q + f.mb + f.bias
    if biased ≥ f.maxBiased then f.maxBiased * 2 ^ f.mb
    else biased.toNat * 2 ^ f.mb + (M - 2 ^ f.mb)

namespace F64

def sign (x : F64) : Bool := x.bits >>> 63 != 0
def expField (x : F64) : Nat := ((x.bits >>> 52) &&& 0x7ff).toNat
def mantField (x : F64) : Nat := (x.bits &&& 0x000f_ffff_ffff_ffff).toNat
def isNaN (x : F64) : Bool := x.expField == 0x7ff && x.mantField != 0
def isInf (x : F64) : Bool := x.expField == 0x7ff && x.mantField == 0
def isZero (x : F64) : Bool := x.expField == 0 && x.mantField == 0
def ofParts (neg : Bool) (rest : Nat) : F64 := ⟨(if neg then 0x8000_0000_0000_0000 else 0) ||| UInt64.ofNat rest⟩
/-- `(m, e)` with |x| = m · 2^e for finite x -/
def dyadic (x : F64) : Nat × Int :=
  if x.expField == 0 then (x.mantField, -1074) else (2 ^ 52 + x.mantField, (x.expField : Int) - 1075)

/-- Go `==` on floats -/
def feq (a b : F64) : Bool := !a.isNaN && !b.isNaN && (a.bits == b.bits || (a.isZero && b.isZero))
def fne (a b : F64) : Bool := !(feq a b)

/-- `float64(u)` for an unsigned 64-bit integer (nearest-even) -/
def ofUInt64 (u : UInt64) : F64 := ofParts false (roundDyadic fmt64 u.toNat 0)

end F64

namespace F32

def sign (x : F32) : Bool := x.bits >>> 31 != 0
def expField (x : F32) : Nat := ((x.bits >>> 23) &&& 0xff).toNat
def mantField (x : F32) : Nat := (x.bits &&& 0x007f_ffff).toNat
def isNaN (x : F32) : Bool := x.expField == 0xff && x.mantField != 0
def isInf (x : F32) : Bool := x.expField == 0xff && x.mantField == 0
def ofParts (neg : Bool) (rest : Nat) : F32 := ⟨(if neg then 0x8000_0000 else 0) ||| UInt32.ofNat rest⟩

/-- `float64(f)`: exact widening (NaNs are quieted, payload kept in the top bits) -/
def toF64 (x : F32) : F64 :=
  if x.isNaN then F64.ofParts x.sign (0x7ff * 2 ^ 52 + (2 ^ 51 ||| x.mantField * 2 ^ 29))
  else if x.isInf then F64.ofParts x.sign (0x7ff * 2 ^ 52)
  else if x.expField == 0 then F64.ofParts x.sign (roundDyadic fmt64 x.mantField (-149))
  else F64.ofParts x.sign (roundDyadic fmt64 (2 ^ 23 + x.mantField) ((x.expField : Int) - 150))

end F32

/-- `float32(f)`: nearest-even narrowing -/
def F64.toF32 (x : F64) : F32 :=
  if x.isNaN then F32.ofParts x.sign (0xff * 2 ^ 23 + (2 ^ 22 ||| x.mantField / 2 ^ 29))
  else if x.isInf then F32.ofParts x.sign (0xff * 2 ^ 23)
  else F32.ofParts x.sign (roundDyadic fmt32 x.dyadic.1 x.dyadic.2)

namespace math

def IsNaN (x : F64) : Bool := x.isNaN
/-- `math.IsInf(f, sign)`: sign > 0 tests +Inf, sign < 0 tests −Inf, 0 either -/
def IsInf (x : F64) (s : Int64) : Bool :=
  x.isInf && ((s ≥ 0 && !x.sign) || (s ≤ 0 && x.sign))
def Signbit (x : F64) : Bool := x.sign
def Float64bits (x : F64) : UInt64 := x.bits
def Float64frombits (b : UInt64) : F64 := ⟨b⟩
/-- `math.NaN()` -/
def NaN : F64 := ⟨0x7ff8_0000_0000_0001⟩
def Inf (s : Int64) : F64 := if s ≥ 0 then ⟨0x7ff0_0000_0000_0000⟩ else ⟨0xfff0_0000_0000_0000⟩
def Copysign (x s : F64) : F64 := ⟨(x.bits &&& 0x7fff_ffff_ffff_ffff) ||| (s.bits &&& 0x8000_0000_0000_0000)⟩
/-- `math.Ldexp(frac, exp)` = frac × 2^exp, correctly rounded (zeros, infinities and NaNs unchanged) -/
def Ldexp (x : F64) (e : Int64) : F64 :=
  if x.isZero || x.isInf || x.isNaN then x
  else F64.ofParts x.sign (roundDyadic fmt64 x.dyadic.1 (x.dyadic.2 + e.toInt))

end math

instance : Codec F64 := ⟨fun x => toString x.bits.toNat, fun s => do let n ← s.toNat?; pure ⟨UInt64.ofNat n⟩⟩
instance : Codec F32 := ⟨fun x => toString x.bits.toNat, fun s => do let n ← s.toNat?; pure ⟨UInt32.ofNat n⟩⟩

end Go
