/-
  `fmt.State` and `fmt.ScanState` as seen by the Go→Lean translator (tools/go2lean/fmtstate.go).
  Hand-written, core-only (no Mathlib), part of the trusted base; exercised by the correspondence
  check (Decimal.Format, Decimal.writeSpecial and Decimal.Scan run through these definitions; the
  operations `api.FmtSprintf`, `api.FmtSscan` and `fmt.ScanScript` of the harness compare them with
  package fmt itself: lean/Oracle/FmtModel.lean).

  Package fmt is TAKEN AS CORRECT and is modelled from the outside: the two interfaces are VALUES and
  their methods are functions on these values, by the meaning the doc comments of fmt/print.go and
  fmt/scan.go give them (where the comments are loose — `SkipSpace`, the width limit — by what the
  implementation in fmt/scan.go does; stated at the definition).

  * An interface value of one of the two types is threaded through the translated code like an in-out
    parameter: a method that changes the state (`Write`; `ReadRune`, `UnreadRune`, `SkipSpace`, `Token`)
    returns the new state first, and `Decimal.Format (d) (f : FmtState) (verb) : GoM FmtState`.
  * NOT modelled: object identity.  The translator refuses whatever could give one state two names
    (copying the interface value, storing it, comparing it, type assertions, closures that mention it).
  * NOT modelled: how package fmt FILLS a `State` from a verb string and its operands (`%-05.2f` gives
    minus, zero, wid = 5, prec = 2; `%+v` reports `+` through plusV; a negative `*` width sets minus
    and clears zero; widths and precisions beyond 10^6 are dropped; Go ≤ 1.22 cleared `zero` when `-`
    was present, Go 1.23 does not), and how it builds a `ScanState` for `Sscan`/`Sscanf`/`Sscanln`.
    That is runtime behaviour of fmt; the harness extracts the real fields with a probe
    `Formatter`/`Scanner` so that the differential runs on exactly the states fmt produces, plus
    arbitrary ones.
-/
import D128.Go.Prelude
import D128.Go.Codec

namespace Go

/-! ## sentinel errors of other packages -/

/-- `errors.Is(err, target)` for a `target` that is a sentinel value (`io.EOF`,
    `io.ErrUnexpectedEOF`): no error value of the model wraps one of them or has an `Is` method that
    accepts them, so the test is equality.  The translator admits no other target. -/
@[inline] def Err.Is (err target : Err) : Bool := err == target

/-! ## UTF-8 -/

/-- `utf8.AppendRune(nil, r)` / `string(r)`: the UTF-8 encoding of `r`; surrogates and values outside
    `[0, 0x10FFFF]` are encoded as U+FFFD -/
def utf8Encode (r : Int32) : Bytes :=
  let c := r.toInt
  if c < 0 ∨ c > 0x10FFFF ∨ (0xD800 ≤ c ∧ c ≤ 0xDFFF) then #[0xEF, 0xBF, 0xBD]
  else
    let n := c.toNat
    let b (x : Nat) : UInt8 := UInt8.ofNat x
    if n < 0x80 then #[b n]
    else if n < 0x800 then #[b (0xC0 + n / 64), b (0x80 + n % 64)]
    else if n < 0x10000 then #[b (0xE0 + n / 4096), b (0x80 + n / 64 % 64), b (0x80 + n % 64)]
    else #[b (0xF0 + n / 262144), b (0x80 + n / 4096 % 64), b (0x80 + n / 64 % 64), b (0x80 + n % 64)]

/-! ## fmt.State -/

/-- The printer state handed to a `Formatter`.  The five flags are what `Flag` reports (so `plus` is
    fmt's `plus || plusV`, `sharp` is `sharp || sharpV`), `wid`/`prec` the width and precision options
    if they were given, `out` what has been written to the state so far (package fmt hands over a state
    whose buffer already holds the output of the preceding verbs and literal text). -/
structure FmtState where
  minus : Bool := false
  plus : Bool := false
  sharp : Bool := false
  space : Bool := false
  zero : Bool := false
  wid : Option Int64 := none
  prec : Option Int64 := none
  out : Bytes := #[]
  deriving DecidableEq, Repr, Inhabited

namespace FmtState

/-- `f.Flag(c)`: "reports whether the flag c, a character, has been set"; false for any other `c` -/
def Flag (f : FmtState) (c : Int64) : Bool :=
  if c == 45 then f.minus          -- '-'
  else if c == 43 then f.plus      -- '+'
  else if c == 35 then f.sharp     -- '#'
  else if c == 32 then f.space     -- ' '
  else if c == 48 then f.zero      -- '0'
  else false

/-- `f.Width()`: "the value of the width option and whether it has been set".  The value that comes with
    `false` is not specified by the interface; package fmt gives 0, and so does the model (the fake
    State of the hooks gives junk instead, so code that read it would show up in the differential). -/
def Width (f : FmtState) : Int64 × Bool :=
  match f.wid with
  | some w => (w, true)
  | none => (0, false)

/-- `f.Precision()`: as `Width` -/
def Precision (f : FmtState) : Int64 × Bool :=
  match f.prec with
  | some p => (p, true)
  | none => (0, false)

/-- `f.Write(b)`: "the function to call to emit formatted output to be printed": appends `b`; package
    fmt's implementation returns `(len(b), nil)` -/
def Write (f : FmtState) (b : Bytes) : FmtState × Int64 × Err :=
  ({ f with out := f.out ++ b }, Go.len b, .nil)

end FmtState

/-! ## fmt.ScanState -/

/-- The scanner state handed to a `Scanner`.

    * `input`, `pos`: the runes of the input and how many of them have been consumed.  How the reader
      turns bytes into runes is outside the model; the runes are taken to be Unicode scalar values, as an
      `io.RuneScanner` delivers them (U+FFFD for ill-formed input).  In particular they are not negative:
      fmt/scan.go uses -1 for "end of input" internally (the line protocol rejects negative runes).
    * `wid`: the width option (`Width()`), `used`: the runes of the current operand consumed so far.
      "ReadRune() will return EOF … when reading beyond the specified width": with `wid = some w` no rune
      is delivered once `used ≥ w`.  (fmt/scan.go: `count ≥ argLimit`, `argLimit = count₀ + maxWid`;
      `used` is `count - count₀`; it is negative after an `UnreadRune` of a rune read before the operand.)
    * `nlIsSpace`: newlines count as space (`Scan`, `Fscan`, `Sscan`); `nlIsEnd`: a newline ends the input
      (`Scanln`, `Fscanln`, `Sscanln`): "ReadRune() will return EOF after returning the first '\n'".
      `Scanf` and friends have neither.
    * `atEOF`: end of input seen (the input was exhausted, or a newline was delivered with `nlIsEnd`).
    * `canUnread`: the previous operation was a `ReadRune` that delivered a rune; only then is
      `UnreadRune` defined ("causes the next call to ReadRune to return the same rune").
    * `broken`: the reader fails with an error other than `io.EOF` where the input ends (any read error of
      the underlying reader; class `errorsNew`).
    NOT modelled: fmt's overall limit of 2^30 runes. -/
structure ScanState where
  input : Array Int32 := #[]
  pos : Nat := 0
  wid : Option Int64 := none
  used : Int := 0
  nlIsSpace : Bool := false
  nlIsEnd : Bool := false
  atEOF : Bool := false
  canUnread : Bool := false
  broken : Bool := false
  deriving DecidableEq, Repr, Inhabited

namespace ScanState

/-- `panic(scanError{err})`: how `SkipSpace` reports "unexpected newline" and read errors (package
    fmt recovers it around the call of the `Scan` method and returns `err` from `Sscan` etc.).  Not a
    string, but on the wire it is `PANIC:explicit` (the fake ScanState of the hooks panics with a type
    of its own that `verifPanic` maps there). -/
def scanError (msg : String) : Panic := .explicit msg

/-- fmt/scan.go `isSpace`: the Unicode White_Space code points -/
def isSpace (r : Int32) : Bool :=
  let c := r.toInt
  (0x0009 ≤ c && c ≤ 0x000d) || c == 0x0020 || c == 0x0085 || c == 0x00a0 || c == 0x1680
    || (0x2000 ≤ c && c ≤ 0x200a) || c == 0x2028 || c == 0x2029 || c == 0x202f || c == 0x205f || c == 0x3000

/-- has the width of the operand been used up? -/
def widthSpent (s : ScanState) : Bool :=
  match s.wid with
  | some w => decide (w.toInt ≤ s.used)
  | none => false

/-- `f.Width()` -/
def Width (s : ScanState) : Int64 × Bool :=
  match s.wid with
  | some w => (w, true)
  | none => (0, false)

/-- `f.ReadRune()`: the next rune, its size in bytes (of its UTF-8 encoding) and `nil`; `(0, 0, io.EOF)` at
    the end of the input, after a newline in `Scanln` mode, beyond the width; `(0, 0, err)` for a broken
    reader. -/
def ReadRune (s : ScanState) : ScanState × Int32 × Int64 × Err :=
  if s.atEOF || s.widthSpent then ({ s with canUnread := false }, 0, 0, .ioEOF)
  else if h : s.pos < s.input.size then
    let r := s.input[s.pos]
    ({ s with pos := s.pos + 1, used := s.used + 1, atEOF := s.nlIsEnd && r == 10, canUnread := true },
      r, Go.len (utf8Encode r), .nil)
  else if s.broken then ({ s with canUnread := false }, 0, 0, .errorsNew)
  else ({ s with atEOF := true, canUnread := false }, 0, 0, .ioEOF)

/-- `f.UnreadRune()`: "causes the next call to ReadRune to return the same rune"; returns `nil`.  Only
    defined directly after a `ReadRune` that delivered a rune (`io.RuneScanner` leaves everything else
    open): elsewhere the model ends (`Go.Panic.unmodelled`). -/
def UnreadRune (s : ScanState) : GoM (ScanState × Err) :=
  if s.canUnread then
    pure ({ s with pos := s.pos - 1, used := s.used - 1, atEOF := false, canUnread := false }, .nil)
  else throw (.unmodelled "fmt.ScanState.UnreadRune not preceded by a ReadRune that delivered a rune")

/-- the loop of `SkipSpace` (fmt/scan.go): runes are consumed up to the first one that is not space,
    which is unread; a newline is space if `nlIsSpace`, otherwise the error "unexpected newline"; the end
    of the input ends the loop; a read error is reported.  The second component is the error of the
    `scanError` panic, if any.  (fmt's special case for "\r\n" — peek at the rune after a '\r' — has no
    effect of its own: '\r' is space anyway.)  `fuel`: each turn consumes a rune. -/
def skipLoop : Nat → ScanState → ScanState × Option Err
  | 0, s => (s, none)
  | fuel + 1, s =>
    let (s1, r, _, err) := s.ReadRune
    if err == .ioEOF then (s1, none)
    else if err != .nil then (s1, some err)
    else if r == 10 then
      if s1.nlIsSpace then skipLoop fuel s1 else (s1, some .errorsNew)
    else if isSpace r then skipLoop fuel s1
    else ({ s1 with pos := s1.pos - 1, used := s1.used - 1, atEOF := false, canUnread := false }, none)

def skipCore (s : ScanState) : ScanState × Option Err := skipLoop (s.input.size - s.pos + 1) s

/-- `f.SkipSpace()`: "skips space in the input.  Newlines are treated appropriately for the operation
    being performed" — see `skipLoop`.  An unexpected newline or a read error is a `scanError` panic. -/
def SkipSpace (s : ScanState) : GoM ScanState :=
  match s.skipCore with
  | (s1, none) => pure s1
  | (_, some _) => throw (scanError "fmt: unexpected newline or read error in SkipSpace")

/-- the loop of `Token`: the run of runes satisfying `f`, UTF-8 encoded; the first rune that does not
    satisfy `f` is unread -/
def tokenLoop (f : Int32 → Bool) : Nat → ScanState → Bytes → ScanState × Bytes × Err
  | 0, s, acc => (s, acc, .nil)
  | fuel + 1, s, acc =>
    let (s1, r, _, err) := s.ReadRune
    if err == .ioEOF then (s1, acc, .nil)
    else if err != .nil then (s1, #[], err)
    else if f r then tokenLoop f fuel s1 (acc ++ utf8Encode r)
    else ({ s1 with pos := s1.pos - 1, used := s1.used - 1, atEOF := false, canUnread := false }, acc, .nil)

/-- `f.Token(skipSpace, f)`: "skips space in the input if skipSpace is true, then returns the run of
    Unicode code points c satisfying f(c)".  What `SkipSpace` would panic with is returned as the error
    (with a nil token); so is a read error.  A nil `f` (`!unicode.IsSpace`) is not modelled: the
    translator requires a function literal. -/
def Token (s : ScanState) (skipSpace : Bool) (f : Int32 → Bool) : ScanState × Bytes × Err :=
  let (s1, e) := if skipSpace then s.skipCore else (s, none)
  match e with
  | some err => (s1, #[], err)
  | none => tokenLoop f (s1.input.size - s1.pos + 1) s1 #[]

end ScanState

/-! ## kernel-checked instances of the definitions above (values taken from package fmt) -/

section
open ScanState
private def st (s : String) : ScanState := { input := s.toList.toArray.map fun c => Int32.ofNat c.toNat }
private def digit (r : Int32) : Bool := decide (48 ≤ r) && decide (r ≤ 57)

example : utf8Encode 65 = #[65] ∧ utf8Encode 0xe9 = #[0xc3, 0xa9] ∧ utf8Encode 0x20ac = #[0xe2, 0x82, 0xac]
    ∧ utf8Encode 0x1f600 = #[0xf0, 0x9f, 0x98, 0x80] ∧ utf8Encode 0xd800 = #[0xef, 0xbf, 0xbd]
    ∧ utf8Encode (-1) = #[0xef, 0xbf, 0xbd] := by decide
example : FmtState.Flag { plus := true } 43 = true ∧ FmtState.Flag { plus := true } 45 = false
    ∧ FmtState.Flag { zero := true } 48 = true ∧ FmtState.Flag { zero := true } 118 = false
    ∧ FmtState.Width { wid := some 5 } = (5, true) ∧ FmtState.Precision {} = (0, false)
    ∧ (FmtState.Write { out := #[1] } #[2, 3]) = ({ out := #[1, 2, 3] }, 2, .nil) := by decide
example : (Token (st "12ab") false digit) = ({ st "12ab" with pos := 2, used := 2 }, #[49, 50], .nil)
    ∧ (Token (st "  12") true digit).2 = (#[49, 50], .nil)
    ∧ (Token { st " \n1" with nlIsSpace := true } true digit).2 = (#[49], .nil)
    ∧ (Token (st " \n1") true digit).2 = (#[], .errorsNew)
    ∧ (ReadRune (st "")).2 = (0, 0, .ioEOF) ∧ (ReadRune { st "" with broken := true }).2 = (0, 0, .errorsNew)
    ∧ (ReadRune { st "12" with wid := some 1, used := 1 }).2 = (0, 0, .ioEOF)
    ∧ (ReadRune (st "é")).2 = (0xe9, 2, .nil)
    ∧ ((SkipSpace (st "\n")).toOption.isNone) ∧ ((UnreadRune (st "1")).toOption.isNone)
    ∧ (SkipSpace { st " \r\n\t x" with nlIsSpace := true }).toOption.map (·.pos) = some 5 := by decide +kernel

end

/-! ## line protocol

  `fmt.State`: `<flags>:<wid>:<prec>:<out>` — flags a number 0…31 (1 minus, 2 plus, 4 sharp, 8 space,
  16 zero), wid/prec a decimal integer or `none`, out a byte string (`x…`).
  `fmt.ScanState`: `<runes>:<pos>:<wid>:<used>:<flags>` — runes `r` followed by the code points in decimal
  separated by `.`, flags a number 0…31 (1 nlIsSpace, 2 nlIsEnd, 4 atEOF, 8 canUnread, 16 broken). -/

namespace Codec

def encOptI64 : Option Int64 → String
  | none => "none"
  | some v => toString v.toInt

def decOptI64 (s : String) : Option (Option Int64) :=
  if s == "none" then some none else do
    let n ← decInt s
    if n < -(2 ^ 63) ∨ n ≥ 2 ^ 63 then none
    pure (some (Int64.ofInt n))

def bit (b : Bool) (k : Nat) : Nat := if b then k else 0

instance : Codec FmtState where
  enc f := toString (bit f.minus 1 + bit f.plus 2 + bit f.sharp 4 + bit f.space 8 + bit f.zero 16) ++ ":"
    ++ encOptI64 f.wid ++ ":" ++ encOptI64 f.prec ++ ":" ++ encBytes f.out
  dec s := match s.splitOn ":" with
    | [fl, w, p, o] => do
      let m ← fl.toNat?
      if m ≥ 32 then none
      let wid ← decOptI64 w
      let prec ← decOptI64 p
      let out ← decBytes o
      pure { minus := m % 2 == 1, plus := m / 2 % 2 == 1, sharp := m / 4 % 2 == 1, space := m / 8 % 2 == 1,
             zero := m / 16 % 2 == 1, wid := wid, prec := prec, out := out }
    | _ => none

def encRunes (a : Array Int32) : String :=
  "r" ++ ".".intercalate (a.toList.map fun r => toString r.toInt)

def decRunes (s : String) : Option (Array Int32) :=
  if !s.startsWith "r" then none else
  let body := (s.drop 1).toString
  if body.isEmpty then some #[] else
  (body.splitOn ".").foldl (fun acc t => do
    let a ← acc
    let n ← decInt t
    if n < 0 ∨ n ≥ 2 ^ 31 then none
    pure (a.push (Int32.ofInt n))) (some #[])

instance : Codec ScanState where
  enc s := encRunes s.input ++ ":" ++ toString s.pos ++ ":" ++ encOptI64 s.wid ++ ":" ++ toString s.used ++ ":"
    ++ toString (bit s.nlIsSpace 1 + bit s.nlIsEnd 2 + bit s.atEOF 4 + bit s.canUnread 8 + bit s.broken 16)
  dec t := match t.splitOn ":" with
    | [rs, p, w, u, fl] => do
      let input ← decRunes rs
      let pos ← p.toNat?
      let wid ← decOptI64 w
      let used ← decInt u
      let m ← fl.toNat?
      if m ≥ 32 ∨ pos > input.size then none
      let canUnread := m / 8 % 2 == 1
      if canUnread ∧ pos = 0 then none
      pure { input := input, pos := pos, wid := wid, used := used, nlIsSpace := m % 2 == 1, nlIsEnd := m / 2 % 2 == 1,
             atEOF := m / 4 % 2 == 1, canUnread := canUnread, broken := m / 16 % 2 == 1 }
    | _ => none

example : Codec.enc ({ minus := true, zero := true, wid := some 5, out := #[65] } : FmtState) = "17:5:none:x41"
    ∧ Codec.enc ({ input := #[49, 8364], pos := 1, used := -1, nlIsEnd := true } : ScanState) = "r49.8364:1:none:-1:2" := by
  decide +kernel
#guard (Codec.dec "17:5:none:x41" : Option FmtState) = some { minus := true, zero := true, wid := some 5, out := #[65] }
#guard (Codec.dec "r49.8364:1:none:-1:2" : Option ScanState)
  = some { input := #[49, 8364], pos := 1, used := -1, nlIsEnd := true }
#guard (Codec.dec "r:0:3:0:0" : Option ScanState) = some { wid := some 3 }
#guard (Codec.dec "r1:0:3:0:8" : Option ScanState) = none

end Codec
end Go
