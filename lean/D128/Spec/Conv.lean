/-
  Specification layer, part 5: conversions (C09 binary floating point, C10 big integers and
  rationals, C14 database/sql Compose/Decompose).  Core-only, executable.
-/
import D128.Spec.Arith
import D128.Spec.Bid

namespace Spec

/-! ## C09: IEEE 754 binary formats -/

structure BinFmt where
  mantBits : Nat      -- explicit mantissa bits (52 / 23)
  expBits : Nat       -- 11 / 8
  deriving Repr

def f64 : BinFmt := ⟨52, 11⟩
def f32 : BinFmt := ⟨23, 8⟩

def BinFmt.bias (f : BinFmt) : Int := 2 ^ (f.expBits - 1) - 1
def BinFmt.emin (f : BinFmt) : Int := 1 - f.bias - f.mantBits     -- exponent of the smallest subnormal
def BinFmt.emaxTop (f : BinFmt) : Int := f.bias + 1               -- 2^emaxTop is the first overflow

inductive BinVal | nan | inf (neg : Bool) | fin (neg : Bool) (q : Rat)
  deriving Repr

def pow2 (e : Int) : Rat := if e ≥ 0 then (2 : Rat) ^ e.toNat else 1 / (2 : Rat) ^ (-e).toNat

def decodeBin (f : BinFmt) (bits : Nat) : BinVal :=
  let m := bits % 2 ^ f.mantBits
  let e := bits / 2 ^ f.mantBits % 2 ^ f.expBits
  let neg := bits / 2 ^ (f.mantBits + f.expBits) % 2 == 1
  if e == 2 ^ f.expBits - 1 then (if m == 0 then .inf neg else .nan)
  else if e == 0 then .fin neg ((m : Rat) * pow2 f.emin)
  else .fin neg (((2 ^ f.mantBits + m : Nat) : Rat) * pow2 ((e : Int) - f.bias - f.mantBits))

/-- ⌊log2 q⌋ for q > 0 -/
def ilog2 (q : Rat) : Int :=
  let est : Int := (q.num.natAbs.log2 : Int) - (q.den.log2 : Int)
  if pow2 (est + 1) ≤ q then est + 1 else if pow2 est ≤ q then est else est - 1

/-- the two neighbours of v > 0 in the binary format: (largest value ≤ v, smallest value ≥ v);
    `none` in the second component means +∞ -/
def binNeighbours (f : BinFmt) (v : Rat) : Rat × Option Rat :=
  let b := ilog2 v
  let u : Int := let u := b - f.mantBits; if u < f.emin then f.emin else u
  let s := v / pow2 u
  let lo := (floorNat s : Rat) * pow2 u
  let hiN := if s.den == 1 then floorNat s else floorNat s + 1
  let hi := (hiN : Rat) * pow2 u
  let top := pow2 f.emaxTop
  if lo ≥ top then (top - pow2 (f.emaxTop - f.mantBits - 1), none)
  else (lo, if hi ≥ top then none else some hi)

/-- Float64/Float32: the result must be one of the two neighbours of the exact value (exact when
    representable), with the right sign; above the range ±Inf, below it ±0 -/
def binAdjacent (f : BinFmt) (x : Val) (bits : Nat) : Option String :=
  match x, decodeBin f bits with
  | .nan .., .nan => none
  | .nan .., _ => some "NaN must convert to NaN"
  | .inf n, .inf n' => if n == n' then none else some "wrong sign of infinity"
  | .inf _, _ => some "infinity must convert to infinity"
  | .fin n c e, r =>
    if c == 0 then
      (match r with | .fin n' q => if q == 0 && n == n' then none else some "zero must convert to a zero of the same sign" | _ => some "zero must convert to zero")
    else
      let nd : Int := ndigits c
      if e + nd > 400 then (match r with | .inf n' => if n == n' then none else some "wrong sign" | _ => some "value above the float range must give ±Inf")
      else if e + nd < -400 then (match r with | .fin n' q => if q == 0 && n == n' then none else some "value below the float range must give ±0" | _ => some "value below the float range must give ±0")
      else
        let v := mag c e
        let (lo, hi) := binNeighbours f v
        match r with
        | .nan => some "finite value converted to NaN"
        | .inf n' => if n != n' then some "wrong sign" else if hi.isNone then none else some "infinite result although a finite neighbour exists"
        | .fin n' q =>
          if n != n' then some "wrong sign"
          else if q == lo || hi == some q then none
          else some s!"not adjacent to the exact value"

/-- exact value of a binary float as a Val-like pair for FromFloat: (neg, rational) -/
def fromBinExpect (f : BinFmt) (nanPayload : UInt64) (bits : Nat) : Val :=
  match decodeBin f bits with
  | .nan => .nan false nanPayload
  | .inf n => .inf n
  | .fin n q => if q == 0 then .fin n 0 0 else roundTo .nearestEven n q

/-- round q > 0 to `prec` bits, nearest-even (big.Float's default mode) -/
def roundBinNE (q : Rat) (prec : Nat) : Rat :=
  let b := ilog2 q
  let u : Int := b - (prec : Int) + 1
  let s := q / pow2 u
  let c0 := floorNat s
  let frac := s - (c0 : Rat)
  let c := if frac > 1/2 || (frac == 1/2 && c0 % 2 == 1) then c0 + 1 else c0
  (c : Rat) * pow2 u

/-! ## C14: Compose / Decompose -/

def beBytes (n : Nat) : List UInt8 :=
  let rec go (fuel : Nat) (n : Nat) (acc : List UInt8) : List UInt8 :=
    match fuel with
    | 0 => acc
    | fuel + 1 => if n == 0 then acc else go fuel (n / 256) (UInt8.ofNat (n % 256) :: acc)
  go 64 n []

/-- expected (form, neg, coefficient bytes, exponent) -/
def decomposeExpect (x : Val) : Nat × Bool × List UInt8 × Int :=
  match x with
  | .nan n _ => (2, n, [], 0)
  | .inf n => (1, n, [], 0)
  | .fin n c e => if c == 0 then (0, n, [], 0) else (0, n, beBytes c, e)

/-- Compose: `some v` = must succeed with exactly this value, `none` = must fail with the given class -/
def composeExpect (form : Nat) (neg : Bool) (bytes : Array UInt8) (exp : Int) : Except String Val :=
  match form with
  | 0 =>
    let n := beNat bytes
    if n == 0 then .ok (.fin neg 0 0)
    else
      -- representable iff n·10^exp is a member of the format
      let l := (ndigits n : Int) + exp
      if l > Emax + 40 || l < Emin - 1 then .error "composeRange"
      else if isMemberS (n : Rat) exp then .ok (exactOrInfS neg (n : Rat) exp) else .error "composeRange"
  | 1 => .ok (.inf neg)
  | 2 => .ok (.nan false 1)
  | _ => .error "composeForm"

end Spec
