/-
  Specification layer, part 2: arithmetic, comparison, quantisation, scaling, integer conversions,
  canonical form — each written from the text of the property it serves (C01–C04, C08, C10, C11,
  C15, C19).  Core-only, executable.
-/
import D128.Spec.Val

namespace Spec

/-! ## NaN payloads (mirror of the documented Payload.String vocabulary) -/

inductive Op | compose | fromFloat32 | fromFloat64 | mustParse | nan | parse | scan | unmarshalText
  | add | log | log10 | log1p | log2 | mul | pow | quo | quoRem | sqrt | sub
  deriving DecidableEq, Repr

def Op.code : Op → UInt64
  | .compose => 1 | .fromFloat32 => 2 | .fromFloat64 => 3 | .mustParse => 4 | .nan => 5 | .parse => 6
  | .scan => 7 | .unmarshalText => 8 | .add => 9 | .log => 10 | .log10 => 11 | .log1p => 12 | .log2 => 13
  | .mul => 14 | .pow => 15 | .quo => 16 | .quoRem => 17 | .sqrt => 18 | .sub => 19

/-- operand class code: 1 +0, 2 -0, 3 +finite, 4 -finite, 5 +Inf, 6 -Inf -/
def classCode : Val → UInt64
  | .fin n 0 _ => if n then 2 else 1
  | .fin n _ _ => if n then 4 else 3
  | .inf n => if n then 6 else 5
  | .nan .. => 0

def invalid (op : Op) (l r : UInt64) : Val := .nan false (op.code ||| (l <<< 8) ||| (r <<< 16))
def invalid2 (op : Op) (x y : Val) : Val := invalid op (classCode x) (classCode y)
def invalid1 (op : Op) (x : Val) : Val := invalid op (classCode x) 0

/-! ## C01: addition and subtraction -/

def negate : Val → Val
  | .nan n p => .nan (!n) p
  | .inf n => .inf (!n)
  | .fin n c e => .fin (!n) c e

/-- `sub = true` marks x − y (only the NaN payload of Inf − Inf differs from x + (−y)) -/
def addCore (m : Mode) (x y : Val) (sub : Bool) : Val :=
  match x, (if sub then negate y else y) with
  | .nan n p, _ => .nan n p
  | _, .nan _ _ => y                      -- the NaN operand itself is propagated
  | .inf n, .inf n' =>
    if n == n' then .inf n
    else if sub then invalid2 .sub x y else invalid2 .add x y
  | .inf n, _ => .inf n
  | _, .inf n' => .inf n'
  | .fin n c e, .fin n' c' e' =>
    if c == 0 && c' == 0 then .fin (n && n') 0 0
    else if c == 0 then .fin n' c' e'
    else if c' == 0 then .fin n c e
    else
      -- exact sum, scaled by 10^-k with k the smaller exponent so that both terms are integers
      let k := if e ≤ e' then e else e'
      let a : Int := (c * 10 ^ (e - k).toNat : Nat)
      let b : Int := (c' * 10 ^ (e' - k).toNat : Nat)
      let s : Int := (if n then -a else a) + (if n' then -b else b)
      if s == 0 then .fin (m == .toNegInf) 0 0
      else roundToS m (s < 0) (s.natAbs : Rat) k

def add (m : Mode) (x y : Val) : Val := addCore m x y false
def sub (m : Mode) (x y : Val) : Val := addCore m x y true

/-! ## C02: multiplication and division -/

def mul (m : Mode) (x y : Val) : Val :=
  match x, y with
  | .nan n p, _ => .nan n p
  | _, .nan n p => .nan n p
  | .inf n, .inf n' => .inf (n != n')
  | .inf n, .fin n' c _ => if c == 0 then invalid2 .mul x y else .inf (n != n')
  | .fin n c _, .inf n' => if c == 0 then invalid2 .mul x y else .inf (n != n')
  | .fin n c e, .fin n' c' e' =>
    flushOrRoundS m (n != n') ((c * c' : Nat) : Rat) (e + e')

def quo (m : Mode) (x y : Val) : Val :=
  match x, y with
  | .nan n p, _ => .nan n p
  | _, .nan n p => .nan n p
  | .inf _, .inf _ => invalid2 .quo x y
  | .inf n, .fin n' _ _ => .inf (n != n')
  | .fin n _ _, .inf n' => .fin (n != n') 0 0
  | .fin n c e, .fin n' c' e' =>
    if c' == 0 then (if c == 0 then invalid2 .quo x y else .inf (n != n'))
    else flushOrRoundS m (n != n') ((c : Rat) / (c' : Rat)) (e - e')

/-! ## C03: integer quotient and remainder -/

def truncNat (q : Rat) : Nat := floorNat q

/-- `(q, r)`; the sign of a zero quotient is that of the exact quotient (xor of the operand signs) -/
def quoRem (m : Mode) (x y : Val) : Val × Val :=
  match x, y with
  | .nan n p, _ => (.nan n p, .nan n p)
  | _, .nan n p => (.nan n p, .nan n p)
  | .inf _, .inf _ => let v := invalid2 .quoRem x y; (v, v)
  | .inf n, .fin n' _ _ => (.inf (n != n'), invalid2 .quoRem x y)
  | .fin n c e, .inf n' => (.fin (n != n') 0 0, .fin n c e)
  | .fin n c e, .fin n' c' e' =>
    if c' == 0 then
      if c == 0 then let v := invalid2 .quoRem x y; (v, v)
      else (.inf (n != n'), invalid2 .quoRem x y)
    else if c == 0 then (.fin (n != n') 0 0, .fin n 0 0)
    else
      -- scale by 10^-k (k the smaller exponent): a, b integers with x = a·10^k, y = b·10^k
      let k := if e ≤ e' then e else e'
      let a : Nat := c * 10 ^ (e - k).toNat
      let b : Nat := c' * 10 ^ (e' - k).toNat
      let t := a / b
      let r := a % b
      let qv := if t == 0 then Val.fin (n != n') 0 0
                else if isMember (t : Rat) then exactOrInf (n != n') (t : Rat)
                else roundTo m (n != n') (t : Rat)
      (qv, exactOrInfS n (r : Rat) k)

/-! ## C04: comparison -/

/-- -2 unordered (NaN), -1 less, 0 equal, 1 greater -/
def cmp (x y : Val) : Int :=
  match x, y with
  | .nan .., _ => -2
  | _, .nan .. => -2
  | .inf n, .inf n' => if n == n' then 0 else if n then -1 else 1
  | .inf n, _ => if n then -1 else 1
  | _, .inf n' => if n' then 1 else -1
  | .fin n c e, .fin n' c' e' =>
    let k := if e ≤ e' then e else e'
    let a : Int := (c * 10 ^ (e - k).toNat : Nat)
    let b : Int := (c' * 10 ^ (e' - k).toNat : Nat)
    let a := if n then -a else a
    let b := if n' then -b else b
    if a < b then -1 else if a == b then 0 else 1

def absVal : Val → Val
  | .nan _ p => .nan false p
  | .inf _ => .inf false
  | .fin _ c e => .fin false c e

def cmpAbs (x y : Val) : Int := cmp (absVal x) (absVal y)
def equal (x y : Val) : Bool := cmp x y == 0

/-- total order with NaN first -/
def compare (x y : Val) : Int :=
  match x.isNaN, y.isNaN with
  | true, true => 0
  | true, false => -1
  | false, true => 1
  | _, _ => cmp x y

/-- Min/Max by value: NaN if either is NaN (the first one), -0 ordered below +0; the result is one of
    the operands up to encoding, so only class/sign/value are specified -/
def minVal (x y : Val) : Val :=
  match x, y with
  | .nan n p, _ => .nan n p
  | _, .nan n p => .nan n p
  | a, b =>
    if a.isZero && b.isZero then .fin (a.neg || b.neg) 0 0
    else if cmp b a == -1 then b else a

def maxVal (x y : Val) : Val :=
  match x, y with
  | .nan n p, _ => .nan n p
  | _, .nan n p => .nan n p
  | a, b =>
    if a.isZero && b.isZero then .fin (a.neg && b.neg) 0 0
    else if cmp b a == 1 then b else a

def isZero : Val → Bool | .fin _ 0 _ => true | _ => false

/-- Sign: none = documented panic (NaN) -/
def sign : Val → Option Int
  | .nan .. => none
  | .inf n => some (if n then -1 else 1)
  | .fin n c _ => some (if c == 0 then 0 else if n then -1 else 1)

/-! ## C08: quantisation -/

/-- Round(dp, m): multiple of 10^-dp selected by m; magnitudes below a tenth of the quantum become a
    signed zero in every mode; a result beyond the largest finite Decimal is ±Inf -/
def quantize (dp : Int) (m : Mode) (x : Val) : Val :=
  match x with
  | .fin n c e =>
    if c == 0 then .fin n 0 0
    else if e + dp ≥ 0 then .fin n c e         -- exponent already ≥ -dp: a multiple, unchanged
    else if e + dp < -((ndigits c : Int) + 1) then .fin n 0 0   -- below a tenth of the quantum
    else
      let s := (c : Rat) * pow10 (e + dp)      -- |x| in units of the quantum 10^-dp
      if s.den == 1 then .fin n c e            -- already a multiple: unchanged
      else if s < 1 / 10 then .fin n 0 0
      else
        let k := roundAt m n s 0
        exactOrInfS n (k : Rat) (-dp)
  | v => v

def ceilDp (dp : Int) (x : Val) : Val :=
  match x with
  | .fin n c e =>
    if c == 0 then .fin n 0 0
    else if e + dp ≥ 0 then .fin n c e
    else if e + dp < -((ndigits c : Int) + 1) then        -- 0 < |x| < quantum
      (if n then .fin n 0 0 else exactOrInfS n 1 (-dp))
    else
      let s := (c : Rat) * pow10 (e + dp)
      if s.den == 1 then .fin n c e
      else
        let k := if n then floorNat s else floorNat s + 1
        exactOrInfS n (k : Rat) (-dp)
  | v => v

def floorDp (dp : Int) (x : Val) : Val :=
  match x with
  | .fin n c e =>
    if c == 0 then .fin n 0 0
    else if e + dp ≥ 0 then .fin n c e
    else if e + dp < -((ndigits c : Int) + 1) then
      (if n then exactOrInfS n 1 (-dp) else .fin n 0 0)
    else
      let s := (c : Rat) * pow10 (e + dp)
      if s.den == 1 then .fin n c e
      else
        let k := if n then floorNat s + 1 else floorNat s
        exactOrInfS n (k : Rat) (-dp)
  | v => v

/-! ## C11: scaling by powers of ten -/

def newVal (m : Mode) (sig : Int) (exp : Int) : Val :=
  if sig == 0 then .fin false 0 0
  else flushOrRoundS m (sig < 0) (sig.natAbs : Rat) exp

def ldexp (m : Mode) (x : Val) (exp : Int) : Val :=
  match x with
  | .fin n c e => if c == 0 then .fin n 0 0 else flushOrRoundS m n (c : Rat) (e + exp)
  | v => v

/-- Frexp: fraction in [0.1, 1) and exponent; specials/zeros unchanged with exponent 0 -/
def frexp (x : Val) : Val × Int :=
  match x with
  | .fin n c e =>
    if c == 0 then (x, 0)
    else
      let r := e + (ndigits c : Int)
      (.fin n c (e - r), r)
  | v => (v, 0)

/-! ## C10: integer conversions -/

/-- integer part truncated toward zero (finite values) -/
def truncInt : Val → Int
  | .fin n c e =>
    let t : Int := if e ≥ 0 then (c * 10 ^ e.toNat : Nat) else (c / 10 ^ (-e).toNat : Nat)
    if n then -t else t
  | _ => 0

/-- saturating conversion into [lo, hi]; none = documented panic (NaN) -/
def sat (lo hi : Int) (x : Val) : Option (Int × Bool) :=
  match x with
  | .nan .. => none
  | .inf n => some (if n then lo else hi, false)
  | v =>
    let t := truncInt v
    if t < lo then some (lo, false) else if t > hi then some (hi, false) else some (t, true)

def fromInt (i : Int) : Val := if i == 0 then .fin false 0 0 else .fin (i < 0) i.natAbs 0

/-! ## C19: canonical form as (lo, hi) words -/

def encode (neg : Bool) (c : Nat) (e : Int) : UInt64 × UInt64 :=
  let be := (e + bias).toNat
  let hiw := c / 2^64
  let lo := UInt64.ofNat (c % 2^64)
  let h := if hiw ≥ 2^49 then 0x6000000000000000 + be * 2^47 + hiw % 2^47 else be * 2^49 + hiw
  let h := if neg then h + 2^63 else h
  (lo, UInt64.ofNat h)

def scaleUp : Nat → Nat → Int → Nat × Int
  | 0, c, e => (c, e)
  | fuel + 1, c, e => if e > 0 && c * 10 ≤ Cmax then scaleUp fuel (c * 10) (e - 1) else (c, e)

def stripZeros : Nat → Nat → Int → Nat × Int
  | 0, c, e => (c, e)
  | fuel + 1, c, e => if e < 0 && c % 10 == 0 then stripZeros fuel (c / 10) (e + 1) else (c, e)

def canonical (x : Val) : UInt64 × UInt64 :=
  match x with
  | .nan _ _ => (0, 0x7c00000000000000)
  | .inf n => (0, if n then 0xf800000000000000 else 0x7800000000000000)
  | .fin n c e =>
    if c == 0 then (0, if n then 0x8000000000000000 else 0)
    else
      let (c, e) := scaleUp 40 c e
      let (c, e) := stripZeros 40 c e
      encode n c e

end Spec
