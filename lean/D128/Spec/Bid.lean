/-
  IEEE 754-2008 §3.5.2 decimal128, binary-integer-decimal encoding, written from the standard's
  field description over the 128-bit string (big-endian bytes), independent of Spec.interp's
  word arithmetic and of the library's own decompose.
-/
import D128.Spec.Val

namespace Spec

/-- big-endian bytes → natural number -/
def beNat (b : Array UInt8) : Nat := b.foldl (fun acc x => acc * 256 + x.toNat) 0

/-- decode a 16-byte interchange string; `none` when the length is not 16 -/
def bidDecode (b : Array UInt8) : Option Val :=
  if b.size ≠ 16 then none else
  let N := beNat b
  let sign := N / 2^127 == 1
  let G := N / 2^110 % 2^17          -- 17-bit combination field G0…G16
  let T := N % 2^110                 -- 110-bit trailing significand field
  let g01 := G / 2^15                -- G0G1
  let g0_4 := G / 2^12               -- G0…G4
  if g0_4 == 31 then some (.nan sign (UInt64.ofNat (N % 2^64)))
  else if g0_4 == 30 then some (.inf sign)
  else if g01 == 3 then
    -- G0G1 = 11, G2G3 ≠ 11: biased exponent = G2…G15, significand = (8 + G16)·2^110 + T
    let e : Nat := G / 2 % 2^14
    let c := (8 + G % 2) * 2^110 + T
    some (.fin sign c ((e : Int) - bias))
  else
    -- biased exponent = G0…G13, significand = (G14G15G16)·2^110 + T
    let e : Nat := G / 2^3
    let c := (G % 8) * 2^110 + T
    some (.fin sign c ((e : Int) - bias))

/-- IEEE-canonical finite encodings are those with at most 34 digits -/
def ieeeCanonical (c : Nat) : Bool := c < 10^34

end Spec
