/-
  Specification layer, part 1: what a bit pattern denotes and what "the member of the format a
  rounding mode selects" means.  Hand-written from properties.jsonl and IEEE 754-2008 §3.5.2;
  independent of the generated model (it never calls Gen.*).  Core-only and executable, so it is
  also the oracle of the correspondence check.
-/
namespace Spec

def Cmax : Nat := 5 * 2^111 - 1
def Emin : Int := -6176
def Emax : Int := 6111
def bias : Int := 6176

/-- the six rounding modes, numbered as in the Go package -/
inductive Mode | nearestEven | nearestAway | toZero | awayFromZero | toNegInf | toPosInf
  deriving DecidableEq, Repr, Inhabited

def Mode.ofNat? : Nat → Option Mode
  | 0 => some .nearestEven | 1 => some .nearestAway | 2 => some .toZero
  | 3 => some .awayFromZero | 4 => some .toNegInf | 5 => some .toPosInf | _ => none

/-- abstract value of a Decimal -/
inductive Val where
  | nan (neg : Bool) (payload : UInt64)
  | inf (neg : Bool)
  | fin (neg : Bool) (c : Nat) (e : Int)
  deriving DecidableEq, Repr, Inhabited

def pow10 (e : Int) : Rat := if e ≥ 0 then ((10 : Rat) ^ e.toNat) else 1 / ((10 : Rat) ^ (-e).toNat)

/-- magnitude of a finite value -/
def mag (c : Nat) (e : Int) : Rat := (c : Rat) * pow10 e

def Val.isNaN : Val → Bool | .nan .. => true | _ => false
def Val.isInf : Val → Bool | .inf .. => true | _ => false
def Val.isFin : Val → Bool | .fin .. => true | _ => false
def Val.isZero : Val → Bool | .fin _ 0 _ => true | _ => false
def Val.neg : Val → Bool | .nan n _ => n | .inf n => n | .fin n _ _ => n
/-- signed rational value of a finite Val (0 for specials) -/
def Val.toRat : Val → Rat
  | .fin n c e => if n then -(mag c e) else mag c e
  | _ => 0
def Val.abs : Val → Rat
  | .fin _ c e => mag c e
  | _ => 0

/-- same class, same sign (also on zero) and same numeric value; NaNs compare by payload too -/
def Val.same : Val → Val → Bool
  | .nan n p, .nan n' p' => n == n' && p == p'
  | .inf n, .inf n' => n == n'
  | .fin n c e, .fin n' c' e' => n == n' && mag c e == mag c' e'
  | _, _ => false

/-- same class/sign/value, ignoring NaN sign and payload -/
def Val.sameNum : Val → Val → Bool
  | .nan _ _, .nan _ _ => true
  | a, b => a.same b

/-- Independent reading of the 128 bits as an IEEE 754-2008 BID decimal128 (two words, hi holds the
    sign, the combination field and the top of the coefficient). Coefficients above 10^34-1 are kept
    as they are (the library uses the full field). -/
def interp (lo hi : UInt64) : Val :=
  let h := hi.toNat
  let neg := h / 2^63 % 2 == 1
  let g5 := h / 2^58 % 32          -- first five bits of the combination field
  if g5 == 31 then .nan neg lo
  else if g5 == 30 then .inf neg
  else if h / 2^61 % 4 == 3 then
    -- steering bits 11: exponent in the next 14 bits, coefficient = 100‖(remaining 47+64 bits)
    let e : Nat := h / 2^47 % 2^14
    let c := (2^49 + h % 2^47) * 2^64 + lo.toNat
    .fin neg c ((e : Int) - bias)
  else
    let e : Nat := h / 2^49 % 2^14
    let c := (h % 2^49) * 2^64 + lo.toNat
    .fin neg c ((e : Int) - bias)

/-! ## decimal logarithm and the selected member -/

/-- number of decimal digits by repeated division (the definition; quadratic in the length) -/
def ndigitsSlow (n : Nat) : Nat :=
  if h : n < 10 then 1 else ndigitsSlow (n / 10) + 1
decreasing_by omega

/-- number of decimal digits of n (1 for 0): the d with 10^(d-1) ≤ n < 10^d.  A guess from the binary
    logarithm is used when it verifies (two comparisons), the defining recursion otherwise, so the
    function is `ndigitsSlow` for every input. -/
def ndigits (n : Nat) : Nat :=
  if n == 0 then 1 else
  let d := n.log2 * 1233 / 4096 + 1
  if 10 ^ (d - 1) ≤ n && n < 10 ^ d then d
  else if 10 ^ d ≤ n && n < 10 ^ (d + 1) then d + 1
  else ndigitsSlow n

/-- ⌊log10 q⌋ for q > 0 -/
def ilog10 (q : Rat) : Int :=
  if q.den == 1 then (ndigits q.num.natAbs : Int) - 1 else   -- integers: exact digit count
  let est : Int := (ndigits q.num.natAbs : Int) - (ndigits q.den : Int)
  -- 10^(est-1) < q < 10^(est+1): decide between est-1, est
  if pow10 est ≤ q then est else est - 1

/-- ⌊q⌋ for q ≥ 0 as a natural number -/
def floorNat (q : Rat) : Nat := q.floor.toNat

/-- ⌊q/10^e⌋ together with the position of the discarded fraction: its comparison with 1/2 and
    whether it is zero.  (Integers with e ≥ 0 take a gcd-free path; the result is the same.) -/
def splitAt (q : Rat) (e : Int) : Nat × Ordering × Bool :=
  if q.den == 1 && e ≥ 0 then
    let n := q.num.toNat
    let p := 10 ^ e.toNat
    let r := n % p
    (n / p, Ord.compare (2 * r) p, r == 0)
  else
    let s := q / pow10 e
    let c0 := floorNat s
    let frac := s - (c0 : Rat)
    (c0, (if frac < 1/2 then .lt else if frac == 1/2 then .eq else .gt), frac == 0)

/-- does mode `m` round the magnitude up, given the sign, the parity of the kept coefficient and the
    position of the discarded part -/
def roundsUp (m : Mode) (neg : Bool) (odd : Bool) (half : Ordering) (exact : Bool) : Bool :=
  match m with
  | .nearestEven => half == .gt || (half == .eq && odd)
  | .nearestAway => half != .lt
  | .toZero => false
  | .awayFromZero => !exact
  | .toNegInf => neg && !exact
  | .toPosInf => !neg && !exact

/-- exponent of the spacing of an unbounded-exponent format at magnitude q > 0:
    the least e with ⌊q/10^e⌋ ≤ Cmax -/
def spacingExpRaw (q : Rat) : Int :=
  let l := ilog10 q
  let e1 := l - 34
  if (splitAt q e1).1 ≤ Cmax then e1 else e1 + 1

/-- exponent of the spacing of the format at magnitude q·10^k (q > 0): never below Emin -/
def spacingExpS (q : Rat) (k : Int) : Int :=
  let e := spacingExpRaw q + k
  if e < Emin then Emin else e

def spacingExp (q : Rat) : Int := spacingExpS q 0

/-- round the magnitude q > 0 at a given exponent -/
def roundAt (m : Mode) (neg : Bool) (q : Rat) (e : Int) : Nat :=
  let (c0, half, exact) := splitAt q e
  if roundsUp m neg (c0 % 2 == 1) half exact then c0 + 1 else c0

/-- the member of the format that mode `m` selects for the exact magnitude q·10^k (q > 0) with the
    given sign; ±Inf when that member would exceed the largest finite Decimal (all six modes).
    The scale k only keeps the rationals small: `roundToS m neg q k = roundTo m neg (q * 10^k)`. -/
def roundToS (m : Mode) (neg : Bool) (q : Rat) (k : Int) : Val :=
  let e := spacingExpS q k
  let c := roundAt m neg q (e - k)
  let (c, e) := if c > Cmax then (c / 10, e + 1) else (c, e)
  if e > Emax then .inf neg else .fin neg c e

def roundTo (m : Mode) (neg : Bool) (q : Rat) : Val := roundToS m neg q 0

/-- as `roundToS`, with a correctly signed zero when the exact magnitude is below 1e-6177 -/
def flushOrRoundS (m : Mode) (neg : Bool) (q : Rat) (k : Int) : Val :=
  if q == 0 then .fin neg 0 0
  else if ilog10 q + k < Emin - 1 then .fin neg 0 Emin      -- q·10^k < 10^(Emin-1)
  else roundToS m neg q k

def flushOrRound (m : Mode) (neg : Bool) (q : Rat) : Val := flushOrRoundS m neg q 0

/-- the exact value q·10^k as a Val when it is a member, ±Inf when it is not (used where the exact
    result is known to be either representable or too large) -/
def exactOrInfS (neg : Bool) (q : Rat) (k : Int) : Val :=
  if q == 0 then .fin neg 0 0
  else
    let e := spacingExpS q k
    let (c0, _, exact) := splitAt q (e - k)
    if e ≤ Emax && exact && c0 ≤ Cmax then .fin neg c0 e else .inf neg

def exactOrInf (neg : Bool) (q : Rat) : Val := exactOrInfS neg q 0

/-- is the magnitude q·10^k ≥ 0 exactly a member of the format -/
def isMemberS (q : Rat) (k : Int) : Bool :=
  q == 0 || (exactOrInfS false q k).isFin

def isMember (q : Rat) : Bool := isMemberS q 0

end Spec
