/-
  Specification layer, part 3: text.  Literal grammar and exact literal value (C05), shortest
  output (C06), float64-style formatting with precision and flags (C07), RFC 8259 numbers (C13).
  Written from the property texts and from the documented behaviour of strconv/fmt for float64;
  `fmtSpec` is validated against the installed toolchain's fmt on exactly representable values by
  the correspondence check.  Core-only, executable.
-/
import D128.Spec.Arith

namespace Spec

abbrev Str := List Char

def isDigit (c : Char) : Bool := '0' ≤ c && c ≤ '9'
def digitVal (c : Char) : Nat := c.toNat - 48
def lower (c : Char) : Char := if 'A' ≤ c && c ≤ 'Z' then Char.ofNat (c.toNat + 32) else c
def eqFold (s : Str) (t : String) : Bool := s.map lower == t.toList

/-! ## C05: literals -/

/-- result of reading a literal -/
inductive Lit where
  | num (neg : Bool) (n : Nat) (scale : Int)     -- value = ±n·10^scale
  | inf (neg : Bool)
  | nan (signed : Bool)
  deriving Repr, DecidableEq

/-- digits with '_' allowed only between digits; returns (value, count, rest) -/
def readDigits (sep : Bool) : Str → Nat → Nat → Nat × Nat × Str
  | c :: rest, acc, cnt =>
    if isDigit c then readDigits sep rest (acc * 10 + digitVal c) (cnt + 1)
    else if sep && c == '_' && cnt > 0 then
      match rest with
      | d :: _ => if isDigit d then readDigits sep rest acc cnt else (acc, cnt, c :: rest)
      | [] => (acc, cnt, c :: rest)
    else (acc, cnt, c :: rest)
  | [], acc, cnt => (acc, cnt, [])

/-- unsigned numeral: digits [. digits] | . digits, then optional exponent; whole input must be used -/
def readNumber (sep : Bool) (s : Str) : Option (Nat × Int) :=
  let (ip, ni, r1) := readDigits sep s 0 0
  let (m, nf, r2) :=
    match r1 with
    | '.' :: r => let (fp, nf, r') := readDigits sep r ip 0; (fp, nf, r')
    | r => (ip, 0, r)
  if ni + nf == 0 then none else
  match r2 with
  | [] => some (m, -(nf : Int))
  | e :: r =>
    if e == 'e' || e == 'E' then
      let (eneg, r) := match r with
        | '-' :: r => (true, r)
        | '+' :: r => (false, r)
        | r => (false, r)
      let (ev, ne, r') := readDigits sep r 0 0
      if ne == 0 || r' ≠ [] then none
      else some (m, (if eneg then -(ev : Int) else (ev : Int)) - (nf : Int))
    else none

/-- the documented syntax of Parse (`sep` = underscores allowed, `names` = NaN/Inf accepted) -/
def readLiteral (sep names : Bool) (s : Str) : Option Lit :=
  let (neg, signed, body) := match s with
    | '-' :: r => (true, true, r)
    | '+' :: r => (false, true, r)
    | r => (false, false, r)
  if names && (eqFold body "inf" || eqFold body "infinity") then some (.inf neg)
  else if names && eqFold body "nan" then some (.nan signed)
  else match readNumber sep body with
    | some (n, sc) => some (.num neg n sc)
    | none => none

/-- value a well-formed numeral must produce, and whether a range error accompanies it -/
def literalValue (m : Mode) (neg : Bool) (n : Nat) (scale : Int) : Val × Bool :=
  if n == 0 then (.fin neg 0 0, false)
  else
    let v := flushOrRoundS m neg (n : Rat) scale
    (v, v.isInf)

/-! ## C06: shortest digits -/

def natDigits (n : Nat) : List Nat :=
  if n == 0 then [] else (toString n).toList.map digitVal

def stripTrailingZeros (ds : List Nat) : List Nat :=
  (ds.reverse.dropWhile (· == 0)).reverse

/-- decimal slice: value = 0.d₁d₂…dₙ × 10^dp, no trailing zeros; zero has no digits and dp = 0 -/
structure Slice where
  ds : List Nat
  dp : Int
  deriving Repr, DecidableEq

def sliceOf (c : Nat) (e : Int) : Slice :=
  if c == 0 then ⟨[], 0⟩ else
  let all := natDigits c
  ⟨stripTrailingZeros all, (all.length : Int) + e⟩

def digitChar (d : Nat) : Char := Char.ofNat (48 + d)
def digitsStr (ds : List Nat) : Str := ds.map digitChar
def zeros (n : Nat) : Str := List.replicate n '0'

/-- exponent part: sign and at least `minDigits` digits -/
def expStr (e : Char) (x : Int) (minDigits : Nat) : Str :=
  let a := x.natAbs
  let ds := (toString a).toList
  let ds := zeros (minDigits - ds.length) ++ ds
  e :: (if x < 0 then '-' else '+') :: ds

/-- %e layout of a slice with `prec` digits after the point (digits beyond the slice are zeros) -/
def layoutE (s : Slice) (prec : Nat) (sharp : Bool) (e : Char) (minExpDigits : Nat) : Str :=
  let first := match s.ds with | d :: _ => digitChar d | [] => '0'
  let rest := digitsStr (s.ds.drop 1)
  let frac := (rest ++ zeros (prec - rest.length)).take prec
  let x : Int := if s.ds.isEmpty then 0 else s.dp - 1
  [first] ++ (if prec > 0 then '.' :: frac else if sharp then ['.'] else []) ++ expStr e x minExpDigits

/-- %f layout of a slice with `prec` digits after the point -/
def layoutF (s : Slice) (prec : Nat) (sharp : Bool) : Str :=
  let n := s.ds.length
  let ip : Str :=
    if s.dp > 0 then
      let k := s.dp.toNat
      digitsStr (s.ds.take k) ++ zeros (k - n)
    else ['0']
  let frac : Str := (List.range prec).map fun (i : Nat) =>
    let j : Int := s.dp + (i : Int)
    if 0 ≤ j ∧ j.toNat < n then digitChar (s.ds.getD j.toNat 0) else '0'
  ip ++ (if prec > 0 then '.' :: frac else if sharp then ['.'] else [])

/-- round a slice half-to-even to `nd` significant digits (nd ≥ 0); exact arithmetic on the digits -/
def roundSlice (s : Slice) (nd : Nat) : Slice :=
  if nd ≥ s.ds.length then s else
  let kept := s.ds.take nd
  let dropped := s.ds.drop nd
  let keptN := kept.foldl (fun a d => a * 10 + d) 0
  let first := dropped.headD 0
  let restNonzero := (dropped.drop 1).any (· != 0)
  let up := first > 5 || (first == 5 && (restNonzero || keptN % 2 == 1))
  let m := if up then keptN + 1 else keptN
  if m == 0 then ⟨[], 0⟩ else
  let ds := natDigits m
  -- a carry into a new leading digit (99→100) lengthens the digit string by one
  let dp := if ds.length > nd then s.dp + 1 else s.dp
  -- leading zeros in `kept` cannot occur (slices are normalised) except for nd = 0
  ⟨stripTrailingZeros ds, if nd == 0 then s.dp + 1 else dp⟩

/-- the numeral String/MarshalText/%v/'g' with precision −1 must print -/
def shortestG (neg : Bool) (s : Slice) (e : Char) : Str :=
  let x : Int := s.dp - 1
  let body :=
    if s.ds.isEmpty then ['0']
    else if x < -4 || x ≥ 6 then layoutE s (s.ds.length - 1) false e 2
    else layoutF s (if (s.ds.length : Int) > s.dp then ((s.ds.length : Int) - s.dp).toNat else 0) false
  (if neg then ['-'] else []) ++ body

def shortestE (neg : Bool) (s : Slice) (e : Char) : Str :=
  (if neg then ['-'] else []) ++ layoutE s (s.ds.length - 1) false e 2

def shortestF (neg : Bool) (s : Slice) : Str :=
  (if neg then ['-'] else []) ++
    layoutF s (if (s.ds.length : Int) > s.dp then ((s.ds.length : Int) - s.dp).toNat else 0) false

/-! ## C07: formatting with precision, flags and width (fmt's rules for a float64) -/

structure Flags where
  plus : Bool := false
  minus : Bool := false
  sharp : Bool := false
  space : Bool := false
  zero : Bool := false
  deriving Repr, DecidableEq

/-- unsigned body (digits, point, exponent) for a verb with optional precision, before the '#'
    digit restoration, as strconv.FormatFloat would produce it -/
def bodyOf (s : Slice) (verb : Char) (prec : Option Nat) : Str :=
  match verb with
  | 'e' | 'E' =>
    let p := prec.getD 6
    layoutE (roundSlice s (p + 1)) p false verb 2
  | 'f' | 'F' =>
    let p := prec.getD 6
    let nd : Int := s.dp + p
    let r := if nd < 0 then (⟨[], 0⟩ : Slice) else roundSlice s nd.toNat
    layoutF r p false
  | _ => -- g / G
    let e := if verb == 'G' then 'E' else 'e'
    match prec with
    | none =>
      let x : Int := s.dp - 1
      if s.ds.isEmpty then ['0']
      else if x < -4 || x ≥ 6 then layoutE s (s.ds.length - 1) false e 2
      else layoutF s (if (s.ds.length : Int) > s.dp then ((s.ds.length : Int) - s.dp).toNat else 0) false
    | some p0 =>
      let p := if p0 == 0 then 1 else p0
      let r := roundSlice s p
      let nd := r.ds.length
      let eprec : Int := if p > nd && (nd : Int) ≥ r.dp then nd else p
      let x : Int := r.dp - 1
      if x < -4 || x ≥ eprec then
        layoutE r ((if p > nd then nd else p) - 1) false e 2
      else
        layoutF r (if (nd : Int) > r.dp then ((nd : Int) - r.dp).toNat else 0) false

/-- fmt's '#' handling: force a decimal point and, for g/G, restore trailing zeros up to the precision -/
def sharpFix (body : Str) (verb : Char) (prec : Option Nat) : Str :=
  let isG := verb == 'g' || verb == 'G'
  let digits0 : Int := if isG then (match prec with | some p => (p : Int) | none => 6) else 0
  let (mant, tail) := body.span (fun c => c != 'e' && c != 'E')
  let hasPoint := mant.contains '.'
  -- count significant digits from the first non-zero digit on
  let (digits, _) := mant.foldl (fun (acc : Int × Bool) c =>
      if c == '.' then acc
      else
        let saw := acc.2 || c != '0'
        (if saw then acc.1 - 1 else acc.1, saw)) (digits0, false)
  let digits := if !hasPoint && mant == ['0'] then digits - 1 else digits
  let mant := if hasPoint then mant else mant ++ ['.']
  mant ++ zeros digits.toNat ++ tail

/-- complete fmt layout: sign, flags, width -/
def fmtSpec (fl : Flags) (verb : Char) (prec : Option Nat) (width : Option Nat) (neg : Bool) (s : Slice) : Str :=
  let body := bodyOf s verb prec
  let body := if fl.sharp then sharpFix body verb prec else body
  let sign : Str := if neg then ['-'] else if fl.plus then ['+'] else if fl.space then [' '] else []
  let w := width.getD 0
  let len := sign.length + body.length
  if w ≤ len then sign ++ body
  else if fl.minus then sign ++ body ++ List.replicate (w - len) ' '
  else if fl.zero then sign ++ zeros (w - len) ++ body
  else List.replicate (w - len) ' ' ++ sign ++ body

/-! ## C13: RFC 8259 numbers -/

/-- `number = [ minus ] int [ frac ] [ exp ]`, int = 0 | digit1-9 *digit; returns the value -/
def readJsonNumber (s : Str) : Option (Bool × Nat × Int × Nat) :=
  let (neg, r) := match s with | '-' :: r => (true, r) | r => (false, r)
  let (ip, ni, r1) := readDigits false r 0 0
  if ni == 0 then none else
  if ni > 1 && r.head? == some '0' then none else
  let (m, nf, r2, fracOk) :=
    match r1 with
    | '.' :: r' => let (fp, nf, r'') := readDigits false r' ip 0; (fp, nf, r'', decide (nf > 0))
    | r' => (ip, 0, r', true)
  if !fracOk then none else
  match r2 with
  | [] => some (neg, m, -(nf : Int), ni + nf)
  | e :: r' =>
    if e == 'e' || e == 'E' then
      let (eneg, r') := match r' with
        | '-' :: r' => (true, r')
        | '+' :: r' => (false, r')
        | r' => (false, r')
      let (ev, ne, r'') := readDigits false r' 0 0
      if ne == 0 || r'' ≠ [] then none
      else some (neg, m, (if eneg then -(ev : Int) else (ev : Int)) - (nf : Int), ni + nf)
    else none

end Spec
