/-
  Specification layer, part 4: elementary functions (C15 special operands, C16 exp/log accuracy,
  C17 roots, C18 Pow).  Special operands follow the Go `math` package tables; accuracy is judged
  against the certified enclosures of D128.Spec.Enclosure.
-/
import D128.Spec.Arith
import D128.Spec.Enclosure

namespace Spec

inductive Fn | exp | exp2 | exp10 | expm1 | log | log2 | log10 | log1p | sqrt | cbrt
  deriving DecidableEq, Repr

def Fn.op : Fn → Op
  | .log => .log | .log2 => .log2 | .log10 => .log10 | .log1p => .log1p | .sqrt => .sqrt
  | _ => .nan

def posOne : Val := .fin false 1 0

/-- results fixed by operand class alone (Go math conventions); `none` = general finite case -/
def specialCase (f : Fn) (x : Val) : Option Val :=
  match x with
  | .nan n p => some (.nan n p)
  | .inf n =>
    match f with
    | .exp | .exp2 | .exp10 => some (if n then .fin false 0 0 else .inf false)
    | .expm1 => some (if n then .fin true 1 0 else .inf false)
    | .log | .log2 | .log10 | .log1p | .sqrt => some (if n then invalid1 f.op x else .inf false)
    | .cbrt => some (.inf n)
  | .fin n c e =>
    if c == 0 then
      match f with
      | .exp | .exp2 | .exp10 => some posOne
      | .expm1 | .log1p | .sqrt | .cbrt => some (.fin n 0 0)
      | .log | .log2 | .log10 => some (.inf true)
    else if n then
      match f with
      | .log | .log2 | .log10 | .sqrt => some (invalid1 f.op x)
      | .log1p =>
        let v := mag c e
        if v == 1 then some (.inf true) else if v > 1 then some (invalid1 .log1p x) else none
      | _ => none
    else none

inductive Verdict | ok | bad (msg : String) | undecided (why : String)
  deriving Repr

open Encl

/-- |r − T| ≤ ulp + extraRel·T for a positive true value T = z·10^t.k, z ∈ [t.m.lo, t.m.hi], and a result r
    (`rneg` must be false: the sign is checked by the caller).  Every `.bad` verdict holds for every T in the
    enclosure: the range tests use the end of the enclosure that makes them certain, and the unit is the
    format's spacing at the upper end (≥ the spacing at T). -/
def withinUlps (r : Val) (t : Sci) (extraRel : Rat := 0) : Verdict :=
  let lo := t.m.lo; let hi := t.m.hi
  if lo ≤ 0 then .undecided "enclosure not positive" else
  let l := ilog10 lo + t.k                        -- decimal exponent of the lower end of the enclosure
  let lh := ilog10 hi + t.k                       -- decimal exponent of the upper end
  -- exponent of the format's spacing at the true value; where the enclosure touches a point at which the
  -- spacing changes (a power of ten, or (Cmax+1)·10^e), the spacing above that point is the unit
  let eT : Int := max (spacingExpS lo t.k) (spacingExpS hi t.k)
  let extraLo := lo * extraRel; let extraHi := hi * extraRel
  let u := pow10 (eT - t.k)
  match r with
  | .nan .. => .bad "NaN from finite operands"
  | .inf _ =>
    -- acceptable only when T + tolerance reaches beyond the largest finite Decimal
    let maxScaled := (Cmax : Rat) * pow10 (Emax - t.k)
    if l > Emax + 36 then .ok
    else if lh < Emax + 30 then .bad "infinite result although the true result is representable"
    else if hi + extraHi + u ≥ maxScaled then .ok
    else .bad "infinite result although the true result is representable"
  | .fin _ c e =>
    if c == 0 then
      -- zero only when T is within one ulp (plus the extra tolerance) of zero
      if lo - u - extraLo ≤ 0 then .ok
      else .bad "zero result although the true result is representable"
    else
      if l > Emax + 40 then .bad "finite result although the true result overflows"
      else if lh < Emin - 40 then .bad "non-zero result although the true result underflows"
      else
      let d := e - t.k
      let rs := (c : Rat) * pow10 d
      if lo - u - extraLo ≤ rs && rs ≤ hi + u + extraHi then .ok
      else if d > 120 || d < -120 then .bad "result has a wrong decimal exponent"
      else .bad s!"more than one ulp from the true value (true≈{(lo * pow10 (36 - ilog10 lo)).floor}e{ilog10 lo + t.k - 36})"

/-- exact Sci for a rational times a power of ten -/
def sciOf (q : Rat) (k : Int) : Sci := ⟨I.pt q, k⟩

/-- enclosure of the true value of f at the finite non-special argument (neg, c, e); returns the sign
    of the true result and its magnitude -/
def trueValue (f : Fn) (n : Bool) (c : Nat) (e : Int) : Option (Bool × Sci) :=
  let x : Rat := if e < -200 || e > 200 then 0 else (if n then -(mag c e) else mag c e)   -- only used when |e| is moderate
  -- |x| < 1e-40: exp-like results are 1 up to far less than an ulp
  let nearOne : Option (Bool × Sci) := some (false, ⟨⟨1 - pow10 (-39), 1 + pow10 (-39)⟩, 0⟩)
  match f with
  | .exp =>
    if e + (ndigits c : Int) > 7 then none else if e + (ndigits c : Int) < -40 then nearOne else (Encl.exp x).map (fun t => (false, t))
  | .exp2 =>
    if e + (ndigits c : Int) > 7 then none else if e + (ndigits c : Int) < -40 then nearOne else (expI ((I.pt x).mul ln2)).map (fun t => (false, t))
  | .exp10 =>
    if e + (ndigits c : Int) > 7 then none else if e + (ndigits c : Int) < -40 then nearOne else (expI ((I.pt x).mul ln10)).map (fun t => (false, t))
  | .expm1 =>
    if e + (ndigits c : Int) > 7 then none
    else if e + (ndigits c : Int) < -40 then
      -- |x| < 1e-40: expm1 x = x + x²/2 + …, enclose relative to x
      some (n, ⟨⟨(c : Rat) * (1 - pow10 (-39)), (c : Rat) * (1 + pow10 (-39))⟩, e⟩)
    else if n && e + (ndigits c : Int) > 2 then
      -- x ≤ −100: e^x − 1 = −(1 − e^x), e^x < 1e-43
      some (true, ⟨⟨1 - pow10 (-40), 1⟩, 0⟩)
    else if !n && e + (ndigits c : Int) > 2 then
      -- x ≥ 100: e^x − 1 = e^x·(1 − e^-x), e^-x < 1e-43
      match Encl.exp x with
      | none => none
      | some t => some (false, ⟨⟨t.m.lo * (1 - pow10 (-40)), t.m.hi⟩, t.k⟩)
    else
      match Encl.expm1 x with
      | none => none
      | some v =>
        if v.lo > 0 then some (false, ⟨v, 0⟩) else if v.hi < 0 then some (true, ⟨v.neg, 0⟩) else none
  | .log | .log2 | .log10 =>
    match Encl.log (c : Rat) e with
    | none => none
    | some l =>
      let l := match f with
        | .log2 => l.mul ln2.invPos
        | .log10 => l.mul ln10.invPos
        | _ => l
      if l.lo > 0 then some (false, ⟨l, 0⟩) else if l.hi < 0 then some (true, ⟨l.neg, 0⟩) else none
  | .log1p =>
    if e + (ndigits c : Int) < -40 then
      some (n, ⟨⟨(c : Rat) * (1 - pow10 (-39)), (c : Rat) * (1 + pow10 (-39))⟩, e⟩)
    else if e > 40 then
      match Encl.log (c : Rat) e with    -- 1 + x = x (1 + 1/x), 1/x < 1e-40 relative
      | some l => some (false, ⟨⟨l.lo, l.hi + pow10 (-38)⟩, 0⟩)
      | none => none
    else if e + (ndigits c : Int) < -12 then
      -- |x| < 1e-12: degree-5 Taylor enclosure (relative width < 1e-59)
      let l := log1pSmall x
      if l.lo > 0 then some (false, ⟨l, 0⟩) else if l.hi < 0 then some (true, ⟨l.neg, 0⟩) else none
    else
      match Encl.log (1 + x) 0 with
      | none => none
      | some l => if l.lo > 0 then some (false, ⟨l, 0⟩) else if l.hi < 0 then some (true, ⟨l.neg, 0⟩) else none
  | _ => none

/-- values the property demands to be exact under nearest-even -/
def exactCase (f : Fn) (n : Bool) (c : Nat) (e : Int) : Option Val :=
  let x : Rat := if e.natAbs > 50 then 0 else (if n then -(mag c e) else mag c e)
  if e.natAbs > 50 then none else
  match f with
  | .exp10 => if x.den == 1 && x.num.natAbs ≤ 6200 then some (flushOrRoundS .nearestEven false 1 x.num) else none
  | .exp2 =>
    if x.den == 1 && x.num ≥ 0 && x.num ≤ 113 then some (.fin false (2 ^ x.num.toNat) 0)
    else if x.den == 1 && x.num < 0 && x.num ≥ -48 then some (.fin false (5 ^ (-x.num).toNat) x.num)
    else none
  | .log => if x == 1 then some (.fin false 0 0) else none
  | .log10 =>
    -- exact when x is a power of ten
    if !n && c == 10 ^ (ndigits c - 1) then
      let k : Int := (ndigits c : Int) - 1 + e
      some (if k == 0 then .fin false 0 0 else .fin (k < 0) k.natAbs 0)
    else none
  | .log2 =>
    if n || x.den != 1 && x.num != 1 then none
    else if x.den == 1 then
      let v := x.num.toNat
      let k := v.log2
      if v == 2 ^ k then some (if k == 0 then .fin false 0 0 else .fin false k 0) else none
    else
      let v := x.den
      let k := v.log2
      if v == 2 ^ k then some (.fin true k 0) else none
  | _ => none

/-- complete judgement of a unary elementary function -/
def judgeElem (f : Fn) (x r : Val) (nearestEven : Bool) : Verdict :=
  match specialCase f x with
  | some want => if r.same want then .ok else .bad "special operand"
  | none =>
    match x with
    | .fin n c e =>
      match (if nearestEven then exactCase f n c e else none) with
      | some want => if r.same want then .ok else .bad "exactly representable result not returned exactly"
      | none =>
        -- huge arguments of the exp family: overflow to +Inf / underflow to 0 (Expm1 → -1)
        if (f == .exp || f == .exp2 || f == .exp10 || f == .expm1) && e + (ndigits c : Int) > 7 then
          (if n then (if f == .expm1 then (if r.same (.fin true 1 0) then .ok else .bad "Expm1 of a huge negative argument is -1")
                      else if r.isZero && !r.neg then .ok else .bad "underflow must give +0")
           else if r.same (.inf false) then .ok else .bad "overflow must give +Inf")
        else
        match trueValue f n c e with
        | none => .undecided "no certified enclosure"
        | some (tn, t) =>
          if r.isNaN then .bad "NaN from a finite operand in the domain"
          else if !r.isZero && !r.isNaN && r.neg != tn then .bad "wrong sign"
          else withinUlps (match r with | .fin _ c e => .fin false c e | .inf _ => .inf false | v => v) t
    | _ => .undecided "unreachable"

/-! ## C17: roots, decided exactly -/

/-- is r one of the two Decimals adjacent to the exact k-th root of |d| with error ≤ (1/2 + 1e-20) ulp -/
def rootOk (k : Nat) (c : Nat) (e : Int) (rc : Nat) (re : Int) : Bool :=
  if rc == 0 then false else
  -- u = spacing at r, in units of 10^re: 1 when r uses the full precision, else 10^(spacingExp - re)
  let se := spacingExpS (rc : Rat) re
  let u : Rat := pow10 (se - re)
  let h := (1 / 2 + pow10 (-20)) * u
  let d := (k : Int) * re - e
  if d > 200 || d < -200 then false else
  let lhs := ((rc : Rat) - h)
  let rhs := ((rc : Rat) + h)
  let target := (c : Rat) * pow10 (-d)            -- |d| / 10^(k·re)
  (if lhs ≤ 0 then true else lhs ^ k ≤ target) && target ≤ rhs ^ k

def judgeRoot (f : Fn) (x r : Val) : Verdict :=
  match specialCase f x with
  | some want => if r.same want then .ok else .bad "special operand"
  | none =>
    match x, r with
    | .fin n c e, .fin rn rc re =>
      if rn != n then .bad "wrong sign"
      else if rootOk (if f == .sqrt then 2 else 3) c e rc re then .ok
      else .bad "not within (1/2 + 1e-20) ulp of the exact root"
    | _, _ => .bad "non-finite root of a finite argument"

/-! ## C18: Pow -/

/-- is the finite value an integer, and is it odd -/
def intParity (c : Nat) (e : Int) : Option Bool :=
  if c == 0 then some false
  else if e ≥ 0 then some (e == 0 && c % 2 == 1)
  else
    let p := 10 ^ (-e).toNat
    if (-e) > 40 then none else
    if c % p == 0 then some ((c / p) % 2 == 1) else none

/-- k with c·10^e = 10^k, if any -/
def powerOfTen (c : Nat) (e : Int) : Option Int :=
  if c != 0 && c == 10 ^ (ndigits c - 1) then some ((ndigits c : Int) - 1 + e) else none

/-- Pow cases fixed exactly by the property / math.Pow table; `none` = general finite case -/
def powSpecial (m : Mode) (x y : Val) : Option Val :=
  if y.isZero then some posOne
  else if x.same posOne then some posOne
  else if (x.same (.fin true 1 0) || (match x with | .fin true c e => mag c e == 1 | _ => false)) && y.isInf then some posOne
  else
  match y with
  | .fin yn yc ye =>
    if mag yc ye == 1 && (ye.natAbs < 40) then
      (if yn then some (quo m posOne x) else some x)
    else
    match x with
    | .nan n p => some (.nan n p)
    | .inf xn =>
      match intParity yc ye with
      | some odd => let neg := xn && odd; some (if yn then .fin neg 0 0 else .inf neg)
      | none => some (if yn then .fin false 0 0 else .inf false)
    | .fin xn xc xe =>
      if xc == 0 then
        match intParity yc ye with
        | some odd => let neg := xn && odd; some (if yn then .inf neg else .fin neg 0 0)
        | none => some (if yn then .inf false else .fin false 0 0)
      else if xn && (intParity yc ye).isNone then some (invalid2 .pow x y)
      else
        -- exact powers of ten
        match powerOfTen xc xe with
        | some k =>
          let neg := xn && (intParity yc ye == some true)
          if !yn && ye ≥ 0 then
            -- non-negative integer exponent: exactly 10^(k·y), m-rounded below Emin, zero / Inf beyond the range
            if ye > 6 || yc * 10 ^ ye.toNat > 20000 then
              some (if k == 0 then .fin neg 1 0 else if k > 0 then .inf neg else .fin neg 0 0)
            else
              let t := k * ((yc * 10 ^ ye.toNat : Nat) : Int)
              some (flushOrRoundS m neg 1 t)
          else if !xn && mag yc ye == 1 / 2 && k % 2 == 0 then
            some (exactOrInfS false 1 (if yn then -(k / 2) else k / 2))
          else none
        | none => none
  | .inf yn =>
    match x with
    | .nan n p => some (.nan n p)
    | .inf _ => some (if yn then .fin false 0 0 else .inf false)
    | .fin _ c e =>
      if c == 0 then some (if yn then .inf false else .fin false 0 0)
      else
        -- |x| vs 1 without building huge powers
        let big := e + (ndigits c : Int) > 0 && !(c == 10 ^ (ndigits c - 1) && e + (ndigits c : Int) == 1)
        let isOne := powerOfTen c e == some 0
        if isOne then some posOne
        else if big then some (if yn then .fin false 0 0 else .inf false)
        else some (if yn then .inf false else .fin false 0 0)
  | .nan n p => match x with | .nan n' p' => some (.nan n' p') | _ => some (.nan n p)

def judgePow (m : Mode) (x y r : Val) : Verdict :=
  match powSpecial m x y with
  | some want => if r.same want then .ok else .bad "exact / special Pow case"
  | none =>
    match x, y with
    | .fin xn xc xe, .fin yn yc ye =>
      let neg := xn && (intParity yc ye == some true)
      match Encl.log (xc : Rat) xe with
      | none => .undecided "no certified log enclosure"
      | some l =>
        -- exponent of the result: y·ln|x|
        let ymag : Rat := if ye > 45 || ye < -6300 then 0 else mag yc ye
        if ye > 45 then .undecided "huge exponent" else
        if ye < -6300 then .undecided "tiny exponent" else
        let yv : Rat := if yn then -ymag else ymag
        let p := l.mul (I.pt yv)
        let plim : Rat := 40000
        if p.lo > plim then (if r.same (.inf neg) then .ok else .bad "overflow must give Inf")
        else if p.hi < -plim then (if r.isZero && r.neg == neg then .ok else .bad "underflow must give zero")
        else
          let t? : Option Sci := if p.hi < pow10 (-40) && p.lo > -(pow10 (-40)) then some ⟨⟨1 - pow10 (-39), 1 + pow10 (-39)⟩, 0⟩ else expI p
          match t? with
          | none => .undecided "no certified enclosure of the power (argument interval too wide)"
          | some t =>
          let lnx := if -l.lo > l.hi then -l.lo else l.hi      -- ≥ |ln|x|| for every value in l
          let extra := ymag * (4 * pow10 (-37) * lnx + pow10 (-55))
          if !r.isNaN && r.neg != neg then .bad "wrong sign"
          else withinUlps (match r with | .fin _ c e => .fin false c e | .inf _ => .inf false | v => v) t extra
    | _, _ => .undecided "unreachable"

end Spec
