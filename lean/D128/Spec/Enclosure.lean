/-
  Rational enclosures of exp and log, used as the oracle for C16–C18 (elementary functions).
  Everything is outward-rounded interval arithmetic over core `Rat`; a floating-point value is used
  only as a starting guess for the logarithm and is then certified by the exp enclosure
  (monotone bracket), so the soundness of a verdict never depends on `Float`.
  Values are kept as  I × 10^k  with I a small-magnitude interval so that results near 10^±6000 stay cheap.
-/
import D128.Spec.Val

namespace Spec.Encl

/-- working precision in significant decimal digits -/
def P : Int := 80

def rdDownPos (q : Rat) : Rat :=
  let k := P - 1 - ilog10 q
  let s := q * pow10 k
  ((s.floor : Int) : Rat) / pow10 k

def rdUpPos (q : Rat) : Rat :=
  let k := P - 1 - ilog10 q
  let s := q * pow10 k
  ((s.ceil : Int) : Rat) / pow10 k

/-- round toward -∞ / +∞ to P significant digits -/
def rdDown (q : Rat) : Rat := if q == 0 then 0 else if q > 0 then rdDownPos q else -(rdUpPos (-q))
def rdUp (q : Rat) : Rat := if q == 0 then 0 else if q > 0 then rdUpPos q else -(rdDownPos (-q))

structure I where
  lo : Rat
  hi : Rat
  deriving Repr

def I.pt (q : Rat) : I := ⟨q, q⟩
def I.add (a b : I) : I := ⟨rdDown (a.lo + b.lo), rdUp (a.hi + b.hi)⟩
def I.sub (a b : I) : I := ⟨rdDown (a.lo - b.hi), rdUp (a.hi - b.lo)⟩
def I.neg (a : I) : I := ⟨-a.hi, -a.lo⟩
def min4 (a b c d : Rat) : Rat := min (min a b) (min c d)
def max4 (a b c d : Rat) : Rat := max (max a b) (max c d)
def I.mul (a b : I) : I :=
  let p1 := a.lo * b.lo; let p2 := a.lo * b.hi; let p3 := a.hi * b.lo; let p4 := a.hi * b.hi
  ⟨rdDown (min4 p1 p2 p3 p4), rdUp (max4 p1 p2 p3 p4)⟩
def I.scale (a : I) (q : Rat) : I := a.mul (I.pt q)
/-- reciprocal of a strictly positive interval -/
def I.invPos (a : I) : I := ⟨rdDown (1 / a.hi), rdUp (1 / a.lo)⟩
def I.contains (a : I) (q : Rat) : Bool := a.lo ≤ q && q ≤ a.hi
def I.width (a : I) : Rat := a.hi - a.lo

/-! ## constants -/

/-- atanh(1/n) = Σ 1/((2i+1)·n^(2i+1)), with the tail bounded by the geometric series -/
def atanhInv (n : Nat) (terms : Nat) : I :=
  let t : Rat := 1 / (n : Rat)
  let t2 := t * t
  let (s, pw) := (List.range terms).foldl (fun (acc : Rat × Rat) i =>
      (acc.1 + acc.2 / ((2 * i + 1 : Nat) : Rat), acc.2 * t2)) ((0 : Rat), t)
  -- remaining terms: Σ_{i≥terms} t^(2i+1)/(2i+1) ≤ pw / ((2·terms+1)(1 − t²))
  let tail := pw / (((2 * terms + 1 : Nat) : Rat) * (1 - t2))
  ⟨rdDown s, rdUp (s + tail)⟩

/-- ln 2 = 2·atanh(1/3) -/
def ln2 : I := (atanhInv 3 90).scale 2
/-- ln(5/4) = 2·atanh(1/9) -/
def ln54 : I := (atanhInv 9 45).scale 2
/-- ln 10 = 3·ln 2 + ln(5/4) -/
def ln10 : I := (ln2.scale 3).add ln54

/-! ## exp -/

/-- enclosure of exp x for |x| ≤ 1/64 by the Taylor polynomial of degree 39 with Lagrange-type tail -/
def expTiny (x : Rat) : I :=
  let n := 40
  let (s, term) := (List.range n).foldl (fun (acc : Rat × Rat) i =>
      (acc.1 + acc.2, acc.2 * x / ((i + 1 : Nat) : Rat))) ((0 : Rat), (1 : Rat))
  -- |tail| ≤ 2·|x|^n/n!  for |x| ≤ 1/2  (term now holds x^n/n!)
  let tail := 2 * (if term < 0 then -term else term)
  ⟨rdDown (s - tail), rdUp (s + tail)⟩

def sqrN : Nat → I → I
  | 0, a => a
  | n + 1, a => sqrN n (a.mul a)

/-- enclosure of exp x for |x| ≤ 4 (argument divided by 2^10, result squared ten times) -/
def expSmall (x : Rat) : I := sqrN 10 (expTiny (x / 1024))

/-- enclosure of exp over a small interval (monotone) -/
def expSmallI (a : I) : I := ⟨(expSmall a.lo).lo, (expSmall a.hi).hi⟩

/-- a positive real as  I × 10^k -/
structure Sci where
  m : I
  k : Int
  deriving Repr

/-- enclosure of exp over the interval a: exp a = 10^k · exp(a − k·ln10).  `none` when the reduced argument
    leaves [−8, 8] (the series/squaring kernel is proved sound there; for every argument the checks use the
    reduced argument lies in roughly [0, 2.31]); this happens only for absurd arguments (|a| ≳ 10^79, where
    k·ln10 can no longer be formed to the units digit with 80 digits, or intervals wider than ~5) -/
def expI (a : I) : Option Sci :=
  let mid := (a.lo + a.hi) / 2
  let k : Int := (mid / ((ln10.lo + ln10.hi) / 2)).floor
  let kl := ln10.scale (k : Rat)
  let r := a.sub kl                     -- r ⊂ roughly [0, 2.31]
  if -8 ≤ r.lo && r.hi ≤ 8 then some ⟨expSmallI r, k⟩ else none

def exp (x : Rat) : Option Sci := expI (I.pt x)

/-- exp x − 1 for |x| ≤ 1/64 without cancellation: x + x²/2! + … -/
def expm1Tiny (x : Rat) : I :=
  let n := 40
  let (s, term) := (List.range (n - 1)).foldl (fun (acc : Rat × Rat) i =>
      (acc.1 + acc.2, acc.2 * x / ((i + 2 : Nat) : Rat))) ((0 : Rat), x)
  let tail := 2 * (if term < 0 then -term else term)
  ⟨rdDown (s - tail), rdUp (s + tail)⟩

/-- exp x − 1 as a plain interval (only used for moderate x; |result| may be tiny) -/
def expm1 (x : Rat) : Option I :=
  if (if x < 0 then -x else x) ≤ 1 / 64 then some (expm1Tiny x)
  else
    match exp x with
    | none => none
    | some e =>
      let p := pow10 e.k
      some ⟨rdDown (e.m.lo * p - 1), rdUp (e.m.hi * p - 1)⟩

/-- enclosure of ln(1+x) for |x| ≤ 1/2 by the Taylor polynomial of degree 5; the remainder is at most
    |x|^6/(1−|x|) ≤ 2|x|^6.  Used for |x| < 10^-12, where the relative width is < 10^-59 (the generic
    certified logarithm of 1+x cannot resolve ln(1+x) ≈ x to an ulp with 80 digits when |x| < 10^-37) -/
def log1pSmall (x : Rat) : I :=
  let s := x - x ^ 2 / 2 + x ^ 3 / 3 - x ^ 4 / 4 + x ^ 5 / 5
  let t := 2 * (if x < 0 then -x else x) ^ 6
  ⟨rdDown (s - t), rdUp (s + t)⟩

/-! ## log, certified through exp -/

def floatToRat (f : Float) : Rat :=
  if f.isNaN || f.isInf then 0 else
  let (m, e) := f.frExp
  let neg := m < 0
  let n : Nat := ((if neg then -m else m) * 9007199254740992.0).toUInt64.toNat
  let q : Rat := (n : Rat) * (if e - 53 ≥ 0 then ((2 : Rat) ^ (e - 53).toNat) else 1 / ((2 : Rat) ^ (53 - e).toNat))
  if neg then -q else q

/-- starting guess for ln(q·10^k), q > 0 -/
def logGuess (q : Rat) (k : Int) : Rat :=
  let l := ilog10 q
  let m := q / pow10 l                                  -- in [1,10)
  let n17 : Nat := (m * pow10 16).floor.toNat
  let f := Float.log (Float.ofScientific n17 true 16)
  floatToRat f + ((l + k : Int) : Rat) * ((ln10.lo + ln10.hi) / 2)

/-- one Newton step for ln(q·10^k):  g + (x·e^-g − 1), evaluated with interval midpoints -/
def newton (q : Rat) (k : Int) (g : Rat) : Rat :=
  match exp (-g) with
  | none => g
  | some e =>
    let mid := (e.m.lo + e.m.hi) / 2
    let t := q * mid * pow10 (k + e.k)          -- ≈ x·e^-g ≈ 1
    rdDown (g + (t - 1))

/-- does exp(g) ≤ q·10^k hold for certain / does exp(g) ≥ q·10^k hold for certain -/
def expLe (g : Rat) (q : Rat) (k : Int) : Bool :=
  match exp g with
  | none => false
  | some e => e.m.hi * pow10 (e.k - k) ≤ q
def expGe (g : Rat) (q : Rat) (k : Int) : Bool :=
  match exp g with
  | none => false
  | some e => e.m.lo * pow10 (e.k - k) ≥ q

/-- certified enclosure of ln(q·10^k) for q > 0: `none` if the bracket could not be certified (in particular
    when the floating-point seed is absurd: then `exp` has no enclosure at the bracket ends) -/
def log (q : Rat) (k : Int) : Option I :=
  let g0 := logGuess q k
  let g1 := newton q k g0
  let g2 := newton q k g1
  let g3 := newton q k g2
  let mag := if g3 < 0 then -g3 else g3
  -- half-width of the bracket: relative 10^-60, but at least 10^-72 (the exp enclosure resolves ~10^-75
  -- at arguments near 0, so the certificate passes with a margin of 10^3); a Decimal x ≠ 1 has |ln x| > 10^-35,
  -- whose unit in the last place is > 10^-70, so the bracket is always narrower than 3·10^-2 of an ulp
  let d := if mag * pow10 (-60) < pow10 (-72) then pow10 (-72) else mag * pow10 (-60)
  let a := g3 - d
  let b := g3 + d
  if expLe a q k && expGe b q k then some ⟨a, b⟩ else none

end Spec.Encl
