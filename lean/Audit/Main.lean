/-
  Audit tool: lists every theorem declared in the given modules together with the axioms it depends
  on (transitively).  Usage: lake env lean --run Audit/Main.lean D128.Props.C12 [more modules…]
  Prints one line per theorem:  THEOREM <module> <name> axioms=[a,b,c]
-/
import Lean
open Lean

partial def axiomsOf (env : Environment) (memo : IO.Ref (Std.HashMap Name (Array Name))) (c : Name) :
    IO (Array Name) := do
  if let some r := (← memo.get)[c]? then return r
  memo.modify (·.insert c #[])   -- cycle guard
  let some ci := env.find? c | return #[]
  let mut acc : Array Name := #[]
  match ci with
  | .axiomInfo _ => acc := #[c]
  | _ => pure ()
  let deps := (ci.type.getUsedConstants ++ (match ci.value? (allowOpaque := true) with | some v => v.getUsedConstants | none => #[]))
  let extra : Array Name := match ci with
    | .inductInfo v => v.ctors.toArray
    | .opaqueInfo v => v.value.getUsedConstants
    | _ => #[]
  for d in deps ++ extra do
    for a in ← axiomsOf env memo d do
      if !acc.contains a then acc := acc.push a
  memo.modify (·.insert c acc)
  return acc

unsafe def main (args : List String) : IO UInt32 := do
  initSearchPath (← findSysroot)
  let mods := args.map String.toName
  let env ← importModules (mods.map ({ module := · })).toArray {} (loadExts := false)
  let memo ← IO.mkRef ({} : Std.HashMap Name (Array Name))
  let mut n := 0
  for (c, ci) in env.constants.toList do
    match ci with
    | .thmInfo _ =>
      let some idx := env.getModuleIdxFor? c | continue
      let m := env.header.moduleNames[idx.toNat]!
      if !(`D128).isPrefixOf m then continue
      if c.isInternalDetail then continue
      let ax ← axiomsOf env memo c
      IO.println s!"THEOREM {m} {c} axioms=[{",".intercalate (ax.toList.map toString)}]"
      n := n + 1
    | _ => pure ()
  IO.println s!"AUDIT theorems={n}"
  return 0
