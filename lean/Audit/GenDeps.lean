/-
  Tie-scope tool: which generated definitions (constants declared in a module `D128.Gen.*`) do the theorems of
  the given modules depend on, transitively?  Also prints the direct call graph among the generated definitions.
  Usage: lake env lean --run Audit/GenDeps.lean D128.Props.C04 D128.Props.C04b …
    GENDEPS <theorem module> <theorem> [g1,g2,…]     generated definitions the theorem depends on
    CALLS <generated definition> [g1,…]              generated definitions it uses directly
-/
import Lean
open Lean

def isGen (env : Environment) (c : Name) : Bool :=
  match env.getModuleIdxFor? c with
  | some idx => (`D128.Gen).isPrefixOf env.header.moduleNames[idx.toNat]!
  | none => false

partial def genDepsOf (env : Environment) (memo : IO.Ref (Std.HashMap Name (Array Name))) (c : Name) :
    IO (Array Name) := do
  if let some r := (← memo.get)[c]? then return r
  memo.modify (·.insert c #[])
  let some ci := env.find? c | return #[]
  let mut acc : Array Name := #[]
  if isGen env c && !c.isInternalDetail then acc := acc.push c
  let deps := (ci.type.getUsedConstants ++ (match ci.value? (allowOpaque := true) with | some v => v.getUsedConstants | none => #[]))
  for d in deps do
    for a in ← genDepsOf env memo d do
      if !acc.contains a then acc := acc.push a
  memo.modify (·.insert c acc)
  return acc

unsafe def main (args : List String) : IO UInt32 := do
  initSearchPath (← findSysroot)
  let mods := args.map String.toName
  let env ← importModules (mods.map ({ module := · })).toArray {} (loadExts := false)
  let memo ← IO.mkRef ({} : Std.HashMap Name (Array Name))
  for (c, ci) in env.constants.toList do
    let some idx := env.getModuleIdxFor? c | continue
    let m := env.header.moduleNames[idx.toNat]!
    match ci with
    | .thmInfo _ =>
      if !mods.contains m then continue
      if c.isInternalDetail then continue
      let g ← genDepsOf env memo c
      IO.println s!"GENDEPS {m} {c} [{",".intercalate (g.toList.map toString)}]"
    | .defnInfo v =>
      if !(`D128.Gen).isPrefixOf m then continue
      if c.isInternalDetail then continue
      let used := (v.value.getUsedConstants).filter (fun d => isGen env d && !d.isInternalDetail && d != c)
      IO.println s!"CALLS {c} [{",".intercalate (used.toList.map toString)}]"
    | _ => pure ()
  return 0
