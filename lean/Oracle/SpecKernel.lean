/-
  Spec checks for kernel-level operations (multi-word integers, rounding kernel): they give the
  hunt a concrete failing state when a kernel is changed.  Word operations are judged against plain
  `Nat` arithmetic; `reduce*`/`round` against Spec.flushOrRoundS on the states their callers produce
  (the hypotheses of the RoundKernel theorems).
-/
import Oracle.SpecConv

namespace Oracle
open Go Spec

def hexNat (s : String) : Option Nat := Codec.parseHex s
def natHex (digits : Nat) (n : Nat) : String := Codec.hexN digits n

/-- unary/binary word operation returning one wide value -/
def wordOp (outBits : Nat) (f : List Nat → Option Nat) (argKinds : List Bool) : SpecFn := fun _ a r => do
  -- argKinds: true = hex word value, false = decimal scalar
  let args ← (argKinds.zipIdx.mapM fun (isHex, i) => if isHex then hexNat (a.getD i "") else (a.getD i "").toNat?)
  match f args with
  | none => none
  | some v => some (expectTok (r.getD 0 "") (natHex (outBits / 4) (v % 2 ^ outBits)))

def divOp (bits : Nat) (d : Nat) : SpecFn := fun _ a r => do
  let n ← hexNat (a.getD 0 "")
  some (expectTok s!"{r.getD 0 ""} {r.getD 1 ""}" s!"{natHex (bits / 4) (n / d)} {n % d}")

def cmpOp : SpecFn := fun _ a r => do
  let n ← hexNat (a.getD 0 ""); let o ← hexNat (a.getD 1 "")
  some (expectTok (r.getD 0 "") (if n < o then "-1" else if n == o then "0" else "1"))

def log10Nat (n : Nat) : Nat := if n == 0 then 0 else ndigits n - 1

def genDiv (bits : Nat) : SpecFn := fun _ a r => do
  let n ← hexNat (a.getD 0 ""); let o ← hexNat (a.getD 1 "")
  if o == 0 then some (if (r.getD 0 "").startsWith "PANIC" then none else some "division by zero must panic")
  else some (expectTok s!"{r.getD 0 ""} {r.getD 1 ""}" s!"{natHex (bits / 4) (n / o)} {natHex (bits / 4) (n % o)}")

def subOp (bits : Nat) : SpecFn := fun _ a r => do
  let n ← hexNat (a.getD 0 ""); let o ← hexNat (a.getD 1 "")
  some (expectTok s!"{r.getD 0 ""} {r.getD 1 ""}" s!"{natHex (bits / 4) ((n + 2 ^ bits - o) % 2 ^ bits)} {if n < o then 1 else 0}")

def two (f : Nat → Nat → Nat) : List Nat → Option Nat
  | [a, b] => some (f a b)
  | _ => none
def one (f : Nat → Nat) : List Nat → Option Nat
  | [a] => some (f a)
  | _ => none

/-- the state relation of the rounding kernel with a representative sticky amount -/
def tauOf (trunc : Int) : Option Rat :=
  if trunc == 0 then some 0 else if trunc == 1 then some (1 / 1000) else if trunc == -1 then some (-1 / 1000) else none

def expectPair (neg : Bool) (want : Val) (sigTok expTok : String) (sigDigits : Nat) : Option String :=
  match hexNat sigTok, expTok.toInt? with
  | some s, some e =>
    if e > 12287 then (if want.same (.inf neg) then none else some s!"spec={showVal want} impl exponent {e} (> 12287: infinite)")
    else if s ≤ Cmax && e ≥ 0 && want.same (.fin neg s (e - 6176)) then none
    else some s!"spec={showVal want} impl=({s}, {e - 6176})"
  | _, _ => some "unparsable kernel result"

/-- reduceN rm neg sig exp trunc under the hypotheses of RK.reduceN_correct -/
def reduceSpec : SpecFn := fun _ a r => do
  let m ← modeOf (a.getD 0 ""); let neg := a.getD 1 "" == "T"
  let sig ← (if (a.getD 2 "").length ≥ 32 then hexNat (a.getD 2 "") else (a.getD 2 "").toNat?)
  let e ← decInt (a.getD 3 "")
  let trunc ← (if a.size > 4 then decInt (a.getD 4 "") else some 0)
  let τ ← tauOf trunc
  if e < -20000 || e > 20000 then none else
  if sig == 0 && trunc != 0 then none else
  if trunc == 1 && sig ≤ Cmax then none else
  if trunc == -1 && sig < 100 * 2 ^ 110 then none else
  let q : Rat := (sig : Rat) + τ
  if q ≤ 0 then none else
  let want := flushOrRoundS m neg q (e - 6176)
  if trunc == -1 && want.isZero then none else
  some (expectPair neg (if sig == 0 then .fin neg 0 0 else want) (r.getD 0 "") (r.getD 1 "") 32)

/-- round rm shift neg sig exp trunc digit with shift = true under the hypotheses of RK.round_correct -/
def roundSpec : SpecFn := fun _ a r => do
  let m ← modeOf (a.getD 0 "")
  if a.getD 1 "" != "T" then none else
  let neg := a.getD 2 "" == "T"
  let sig ← hexNat (a.getD 3 ""); let e ← decInt (a.getD 4 "")
  let trunc ← decInt (a.getD 5 ""); let digit ← (a.getD 6 "").toNat?
  let τ ← tauOf trunc
  if digit > 9 || sig > Cmax || e < 0 || e > 12400 then none else
  if !(2 ^ 110 ≤ sig || e == 0 || (digit == 0 && trunc == 0)) then none else
  if !(e ≤ 12287 || 2 ^ 110 ≤ sig) then none else
  let q : Rat := (sig : Rat) + ((digit : Rat) + τ) / 10
  if q ≤ 0 then none else
  some (expectPair neg (roundToS m neg q (e - 6176)) (r.getD 0 "") (r.getD 1 "") 32)

def kernelSpecs : List (String × SpecFn) := [
  ("U128.add64", wordOp 128 (two (· + ·)) [true, false]),
  ("U128.sub64", wordOp 128 (two fun n o => n + 2 ^ 128 - o) [true, false]),
  ("U128.add", wordOp 192 (two (· + ·)) [true, true]),
  ("U128.sub", subOp 128),
  ("U128.mul64", wordOp 128 (two (· * ·)) [true, false]),
  ("U128.mul", wordOp 256 (two (· * ·)) [true, true]),
  ("U128.mul1e38", wordOp 256 (one (· * 10 ^ 38)) [true]),
  ("U128.twos", wordOp 128 (one fun n => 2 ^ 128 - n) [true]),
  ("U128.or64", wordOp 128 (two fun n o => n ||| o) [true, false]),
  ("U128.lsh", wordOp 128 (two fun n o => n * 2 ^ o) [true, false]),
  ("U128.rsh", wordOp 128 (two fun n o => n / 2 ^ o) [true, false]),
  ("U128.cmp", cmpOp),
  ("U128.div10", divOp 128 10), ("U128.div100", divOp 128 100), ("U128.div1000", divOp 128 1000),
  ("U128.div10000", divOp 128 10000), ("U128.div1e8", divOp 128 (10 ^ 8)), ("U128.div1e19", divOp 128 (10 ^ 19)),
  ("U128.div", genDiv 128),
  ("U128.log10", fun _ a r => do let n ← hexNat (a.getD 0 ""); some (expectTok (r.getD 0 "") (toString (log10Nat n)))),
  ("U192.add64", wordOp 192 (two (· + ·)) [true, false]),
  ("U192.sub64", wordOp 192 (two fun n o => n + 2 ^ 192 - o) [true, false]),
  ("U192.add", wordOp 256 (two (· + ·)) [true, true]),
  ("U192.sub", subOp 192),
  ("U192.mul64", wordOp 192 (two (· * ·)) [true, false]),
  ("U192.mul", wordOp 384 (two (· * ·)) [true, true]),
  ("U192.pow2", wordOp 384 (one fun n => n * n) [true]),
  ("U192.twos", wordOp 192 (one fun n => 2 ^ 192 - n) [true]),
  ("U192.lsh", wordOp 192 (two fun n o => n * 2 ^ o) [true, false]),
  ("U192.rsh", wordOp 192 (two fun n o => n / 2 ^ o) [true, false]),
  ("U192.cmp", cmpOp),
  ("U192.div10", divOp 192 10), ("U192.div10000", divOp 192 10000), ("U192.div1e8", divOp 192 (10 ^ 8)), ("U192.div1e19", divOp 192 (10 ^ 19)),
  ("U192.div", genDiv 192),
  ("U192.log10", fun _ a r => do let n ← hexNat (a.getD 0 ""); some (expectTok (r.getD 0 "") (toString (log10Nat n)))),
  ("U256.mul64", wordOp 256 (two (· * ·)) [true, false]),
  ("U256.lsh", wordOp 256 (two fun n o => n * 2 ^ o) [true, false]),
  ("U256.rsh", wordOp 256 (two fun n o => n / 2 ^ o) [true, false]),
  ("U256.div10", divOp 256 10), ("U256.div10000", divOp 256 10000), ("U256.div1e8", divOp 256 (10 ^ 8)), ("U256.div1e19", divOp 256 (10 ^ 19)),
  ("U384.div10", divOp 384 10), ("U384.div1e19", divOp 384 (10 ^ 19)),
  ("RoundingMode.reduce128", reduceSpec), ("RoundingMode.reduce192", reduceSpec), ("RoundingMode.reduce256", reduceSpec),
  ("RoundingMode.reduce64", reduceSpec),
  ("RoundingMode.round", roundSpec)
]

def kernelSpecTable : SpecTable := kernelSpecs.foldl (fun m (k, v) => m.insert k v) convSpecTable

end Oracle
