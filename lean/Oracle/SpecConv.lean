/-
  Spec checks for conversions (C09, C10 big, C14).
-/
import Oracle.SpecElem
import D128.Spec.Conv

namespace Oracle
open Go Spec

def parseRatTok (s : String) : Option (Bool × Rat) := do
  let (neg, body) := if s.startsWith "-" then (true, (s.drop 1).toString) else if s.startsWith "+" then (false, (s.drop 1).toString) else (false, s)
  match body.splitOn "/" with
  | [n, d] => do let n ← n.toNat?; let d ← d.toNat?; if d == 0 then none else pure (neg, (n : Rat) / (d : Rat))
  | _ => none

def relErrOk (got want tol : Rat) : Bool :=
  let d := if got ≥ want then got - want else want - got
  d ≤ tol * want

def convSpecs : List (String × SpecFn) := [
  ("api.FromFloat64", fun g a r => do
      let bits ← (a.getD 0 "").toNat?
      if g.DefaultRoundingMode != 0 then none else
      some (expectVal (decDec (r.getD 0 "")) (fromBinExpect f64 3 bits))),
  ("api.FromFloat32", fun g a r => do
      let bits ← (a.getD 0 "").toNat?
      if g.DefaultRoundingMode != 0 then none else
      some (expectVal (decDec (r.getD 0 "")) (fromBinExpect f32 2 bits))),
  ("api.Float64", fun _ a r => do
      let x ← decDec (a.getD 0 ""); let bits ← (r.getD 0 "").toNat?
      some (binAdjacent f64 x bits)),
  ("api.Float32", fun _ a r => do
      let x ← decDec (a.getD 0 ""); let bits ← (r.getD 0 "").toNat?
      some (binAdjacent f32 x bits)),
  ("api.F64RoundTrip", fun _ a r => some (expectTok (r.getD 0 "") (a.getD 0 ""))),
  ("api.F32RoundTrip", fun _ a r => some (expectTok (r.getD 0 "") (a.getD 0 ""))),
  ("api.Float", fun _ a r => do
      let x ← decDec (a.getD 0 "")
      let precArg ← decInt (a.getD 1 ""); let mode ← (a.getD 2 "").toNat?
      let prec ← (r.getD 1 "").toNat?
      match x with
      | .nan .. => some (expectTok (r.getD 0 "") "PANIC:explicit")
      | .inf n => some (expectTok (r.getD 0 "") (if n then "-Inf" else "+Inf"))
      | .fin n c e =>
        let wantPrec : Nat := if precArg ≤ 0 then 128 else precArg.toNat
        if prec != wantPrec then some (some s!"precision {prec}, expected {wantPrec}") else
        if r.getD 0 "" == "+Inf" || r.getD 0 "" == "-Inf" then
          -- big.Float overflows only beyond 2^(2^31): never for a Decimal
          some (some "finite value converted to an infinity")
        else
        match parseRatTok (r.getD 0 "") with
        | none => some (some "unparsable result")
        | some (rn, q) =>
          if c == 0 then some (if q == 0 && rn == n then none else some "zero must convert to a zero of the same sign") else
          if e > 6200 || e < -6300 then none else
          let v := mag c e
          if rn != n then some (some "wrong sign") else
          if !relErrOk q v (pow2 (1 - (prec : Int))) then some (some s!"relative error above 2^(1-prec), prec={prec}")
          else if prec ≥ 114 && mode == 0 && q != roundBinNE v prec then some (some "not correctly rounded although prec ≥ 114")
          else some none),
  ("api.FromFloat", fun _ a r => do
      let res ← decDec (r.getD 0 "")
      if a.getD 0 "" == "+Inf" then some (expectVal (some res) (.inf false)) else
      if a.getD 0 "" == "-Inf" then some (expectVal (some res) (.inf true)) else
      let m ← (a.getD 0 "").toNat?; let e2 ← decInt (a.getD 1 ""); let neg := a.getD 2 "" == "T"
      if m == 0 then some (if res.isZero then none else some "zero must convert to zero") else
      if e2 > 30000 || e2 < -30000 then none else
      let v := (m : Rat) * pow2 e2
      -- representable range only
      let l := ilog10 v
      if l > Emax + 34 then (if res.isInf then some none else some (some "overflow must give Inf"))
      else if l < Emin - 1 then none
      else match res with
        | .fin rn c e => if rn != neg then some (some "wrong sign")
                         else if l < Emin + 34 then none     -- subnormal results: absolute spacing, not claimed relatively
                         else if relErrOk (mag c e) v (2 * pow10 (-33)) then some none else some (some "more than 2 parts in 10^33 away")
        | _ => if l ≥ Emax + 33 then none else some (some "non-finite result for a representable value")),
  ("api.FromInt", fun g a r => do
      let i ← decInt (a.getD 0 "")
      if g.DefaultRoundingMode != 0 then none else
      let want := if i == 0 then Val.fin false 0 0 else roundTo .nearestEven (i < 0) (i.natAbs : Rat)
      some (expectVal (decDec (r.getD 0 "")) want)),
  ("api.Int", fun _ a r => do
      let x ← decDec (a.getD 0 "")
      match x with
      | .fin .. => some (expectTok (r.getD 0 "") (toString (truncInt x)))
      | _ => some (expectTok (r.getD 0 "") "PANIC:explicit")),
  ("api.Rat", fun _ a r => do
      let x ← decDec (a.getD 0 "")
      match x with
      | .fin n c e =>
        let tok := r.getD 0 ""
        let (neg, body) := if tok.startsWith "-" then (true, (tok.drop 1).toString) else (false, tok)
        match parseRatTok body with
        | none => some (some "unparsable result")
        | some (_, q) => some (if q == mag c e && (neg == n || c == 0) then none else some "Rat is not the exact value")
      | _ => some (expectTok (r.getD 0 "") "PANIC:explicit")),
  ("api.FromRat", fun g a r => do
      let n ← decInt (a.getD 0 ""); let d ← decInt (a.getD 1 "")
      let res ← decDec (r.getD 0 "")
      if d == 0 || g.DefaultRoundingMode != 0 then none else
      if n == 0 then some (if res.isZero then none else some "zero must convert to zero") else
      let neg := (n < 0) != (d < 0)
      let q : Rat := (n.natAbs : Rat) / (d.natAbs : Rat)
      if ndigits n.natAbs ≤ 34 && ndigits d.natAbs ≤ 34 then
        some (expectVal (some res) (flushOrRound .nearestEven neg q))
      else
        let l := ilog10 q
        if l > Emax + 34 then (if res.isInf then some none else some (some "overflow must give Inf"))
        else if l < Emin + 34 then none
        else match res with
          | .fin rn c e => if rn != neg then some (some "wrong sign")
                           else if relErrOk (mag c e) q (2 * pow10 (-33)) then some none else some (some "more than 2 parts in 10^33 away")
          | _ => if l ≥ Emax + 33 then none else some (some "non-finite result")),
  ("api.RatRoundTrip", fun _ a r => do
      let x ← decDec (a.getD 0 "")
      match x with
      | .fin _ c _ =>
        -- Equal to d: same value; the sign of a zero is not carried by a big.Rat
        if c == 0 then some (if (decDec (r.getD 0 "")).map (·.isZero) == some true then none else some "zero must round-trip to zero")
        else some (expectVal (decDec (r.getD 0 "")) x)
      | _ => some (expectTok (r.getD 0 "") "PANIC:explicit")),
  ("api.Decompose", fun _ a r => do
      let x ← decDec (a.getD 0 "")
      let (form, neg, bytes, e) := decomposeExpect x
      some (expectTok s!"{r.getD 0 ""} {r.getD 1 ""} {r.getD 2 ""} {r.getD 3 ""}"
                      s!"{form} {boolTok neg} {Codec.encBytes bytes.toArray} {e}")),
  ("api.Compose", fun _ a r => do
      let form ← (a.getD 1 "").toNat?; let neg := a.getD 2 "" == "T"
      let b ← Codec.decBytes (a.getD 3 ""); let e ← decInt (a.getD 4 "")
      match composeExpect form neg b e with
      | .ok v => if r.getD 1 "" != "nil" then some (some s!"representable value rejected: {r.getD 1 ""} (spec={showVal v})")
                 else some (expectVal (decDec (r.getD 0 "")) v)
      | .error cls => if r.getD 1 "" != cls then some (some s!"error class: spec={cls} impl={r.getD 1 ""}")
                      else some (expectTok (r.getD 0 "") (a.getD 0 ""))),
  ("api.ComposeDecompose", fun _ a r => do
      let x ← decDec (a.getD 0 "")
      if r.getD 1 "" != "nil" then some (some s!"Compose(Decompose(d)) failed: {r.getD 1 ""}") else
      match x with
      | .nan .. => some (if (decDec (r.getD 0 "")).map (·.isNaN) == some true then none else some "NaN lost")
      | _ => some (expectVal (decDec (r.getD 0 "")) x))
]

/-- `Decimal.Float` driven through the hook dispatcher: `<d> <f> = <result>` with `*big.Float` tokens
    (`nil` or `prec:mode:value`, Go/BigFloat.lean).  Rewritten into the line format of `api.Float`
    (`<d> <prec or -1 for nil> <mode> = ±num/den|±Inf <prec>`) and judged by that check; on top of it
    the result keeps the rounding mode of a non-nil `f` (a new Float has ToNearestEven). -/
def floatKernelSpec (apiSpec : SpecFn) : SpecFn := fun g a r => do
  let recv : Option BigFloat ← Codec.dec (a.getD 1 "")
  let (precArg, mode) : Int × Nat := match recv with
    | none => (-1, 0)
    | some f => (f.prec, f.mode.toNat)
  let args := #[a.getD 0 "", toString precArg, toString mode]
  if (r.getD 0 "").startsWith "PANIC" then apiSpec g args r else
  match (Codec.dec (r.getD 0 "") : Option BigFloat) with
  | none => some (some "unparsable big.Float result")
  | some res =>
    let sgn := if res.neg then "-" else "+"
    let tok := match res.form with
      | .inf => sgn ++ "Inf"
      | .zero => sgn ++ "0/1"
      | .finite => sgn ++ toString res.val.num.natAbs ++ "/" ++ toString res.val.den
    if res.mode.toNat != mode then some (some s!"rounding mode {res.mode} of the result, expected {mode}") else
    apiSpec g args #[tok, toString res.prec]

/-- `FromFloat` driven through the hook dispatcher: `<f> = <decimal>`; rewritten into the line format
    of `api.FromFloat` (`<mantissa> <exp2> <neg>` or `±Inf`) and judged by that check. -/
def fromFloatKernelSpec (apiSpec : SpecFn) : SpecFn := fun g a r => do
  let f : BigFloat ← Codec.dec (a.getD 0 "")
  match f.form with
  | .inf => apiSpec g #[if f.neg then "-Inf" else "+Inf", "0", "F"] r
  | .zero => apiSpec g #["0", "0", boolTok f.neg] r
  | .finite =>
    -- val = num/den with den a power of two
    let e2 : Int := -(f.val.den.log2 : Int)
    apiSpec g #[toString f.val.num.natAbs, toString e2, boolTok f.neg] r

/-- the generated conversions are also driven directly through the hook dispatcher (kernel mode):
    same line format as the `api.*` forms, same judgement -/
def convAliases : List (String × String) :=
  [("FromFloat64", "api.FromFloat64"), ("FromFloat32", "api.FromFloat32"),
   ("Decimal.Float64", "api.Float64"), ("Decimal.Float32", "api.Float32")]

def convSpecTable : SpecTable :=
  let t := convSpecs.foldl (fun m (k, v) => m.insert k v) allSpecTable
  let t := convAliases.foldl (fun m (k, k') => match t.get? k' with | some v => m.insert k v | none => m) t
  -- the big.Float conversions: their kernel lines carry big.Float tokens (adapters above)
  let t := match t.get? "api.Float" with | some v => t.insert "Decimal.Float" (floatKernelSpec v) | none => t
  match t.get? "api.FromFloat" with | some v => t.insert "FromFloat" (fromFloatKernelSpec v) | none => t

end Oracle
