/-
  Spec checks for special operands, elementary functions, roots and Pow (C15–C18).
-/
import Oracle.SpecText
import D128.Spec.Elem

namespace Oracle
open Go Spec

def verdictToCheck : Verdict → Option (Option String)
  | .ok => some none
  | .bad m => some (some m)
  | .undecided _ => none

def elemSpec (f : Fn) : SpecFn := fun g a r => do
  let x ← decDec (a.getD 0 "")
  let res ← decDec (r.getD 0 "")
  -- the accuracy claim is judged under the default (nearest-even) mode; special operands always
  if g.DefaultRoundingMode != 0 && (specialCase f x).isNone then none else
  match verdictToCheck (judgeElem f x res (g.DefaultRoundingMode == 0)) with
  | some (some m) => some (some s!"{m}: arg={showVal x} impl={showVal res}")
  | v => v

def rootSpec (f : Fn) : SpecFn := fun g a r => do
  let x ← decDec (a.getD 0 "")
  let res ← decDec (r.getD 0 "")
  -- under a non-default rounding mode only the special operands are claimed
  if g.DefaultRoundingMode != 0 && (specialCase f x).isNone then none else
  match verdictToCheck (judgeRoot f x res) with
  | some (some m) => some (some s!"{m}: arg={showVal x} impl={showVal res}")
  | v => v

def powSpecMode (modeArg : Option Nat) : SpecFn := fun g a r => do
  let x ← decDec (a.getD 0 ""); let y ← decDec (a.getD 1 "")
  let res ← decDec (r.getD 0 "")
  let m ← (match modeArg with
    | some i => modeOf (a.getD i "")
    | none => Mode.ofNat? g.DefaultRoundingMode.toNat)
  match verdictToCheck (judgePow m x y res) with
  | some (some msg) => some (some s!"{msg}: x={showVal x} y={showVal y} impl={showVal res}")
  | v => v

def payloadName (p : UInt64) : String :=
  let arg (v : UInt64) : String := match v.toNat with
    | 1 => "Zero" | 2 => "-Zero" | 3 => "Finite" | 4 => "-Finite" | 5 => "Infinite" | 6 => "-Infinite" | _ => "Unknown"
  let l := arg ((p >>> 8) &&& 0xff); let r := arg ((p >>> 16) &&& 0xff)
  if p == 0 then "Payload(0)" else if p > 0x00ffffff then s!"Payload({p.toNat})" else
  match (p &&& 0xff).toNat with
  | 1 => "Compose()" | 2 => "FromFloat32()" | 3 => "FromFloat64()" | 4 => "MustParse()" | 5 => "NaN()"
  | 6 => "Parse()" | 7 => "Scan()" | 8 => "UnmarshalText()"
  | 9 => s!"Add({l}, {r})" | 10 => s!"Log({l})" | 11 => s!"Log10({l})" | 12 => s!"Log1p({l})" | 13 => s!"Log2({l})"
  | 14 => s!"Mul({l}, {r})" | 15 => s!"Pow({l}, {r})" | 16 => s!"Quo({l}, {r})" | 17 => s!"QuoRem({l}, {r})"
  | 18 => s!"Sqrt({l})" | 19 => s!"Sub({l}, {r})"
  | _ => s!"Payload({p.toNat})"

def elemSpecs : List (String × SpecFn) := [
  ("Exp", elemSpec .exp), ("Exp2", elemSpec .exp2), ("Exp10", elemSpec .exp10), ("Expm1", elemSpec .expm1),
  ("Log", elemSpec .log), ("Log2", elemSpec .log2), ("Log10", elemSpec .log10), ("Log1p", elemSpec .log1p),
  ("Sqrt", rootSpec .sqrt), ("Cbrt", rootSpec .cbrt),
  ("Decimal.PowWithMode", powSpecMode (some 2)),
  ("Decimal.Pow", powSpecMode none),
  ("Decimal.IsNaN", fun _ a r => do
      let x ← decDec (a.getD 0 ""); some (expectTok (r.getD 0 "") (boolTok x.isNaN))),
  ("Decimal.IsInf", fun _ a r => do
      let x ← decDec (a.getD 0 ""); let s ← decInt (a.getD 1 "")
      let want := match x with
        | .inf n => s == 0 || (s > 0 && !n) || (s < 0 && n)
        | _ => false
      some (expectTok (r.getD 0 "") (boolTok want))),
  ("Decimal.Signbit", fun _ a r => do
      let x ← decDec (a.getD 0 ""); some (expectTok (r.getD 0 "") (boolTok x.neg))),
  ("Decimal.Payload_", fun _ a r => do
      let x ← decDec (a.getD 0 "")
      match x with
      | .nan _ p => some (expectTok (r.getD 0 "") (toString p.toNat))
      | _ => some (expectTok (r.getD 0 "") "PANIC:explicit")),
  ("api.PayloadString", fun _ a r => do
      let p ← (a.getD 0 "").toNat?
      some (expectStr (r.getD 0 "") (payloadName (UInt64.ofNat p)).toList)),
  ("Inf", fun _ a r => do
      let s ← decInt (a.getD 0 ""); some (expectVal (decDec (r.getD 0 "")) (.inf (s < 0)))),
  ("NaN", fun _ _ r => some (expectVal (decDec (r.getD 0 "")) (.nan false 5))),
  ("Abs", unaryVal absVal'),
  ("Decimal.Neg", unaryVal negate)
]
  where absVal' : Val → Val
    | .nan _ p => .nan false p
    | .inf _ => .inf false
    | .fin _ c e => .fin false c e

def allSpecTable : SpecTable := elemSpecs.foldl (fun m (k, v) => m.insert k v) fullSpecTable

end Oracle
