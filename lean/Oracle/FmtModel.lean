/-
  Model entries for the operations of the fmt layer that run the REAL package fmt (harness/gen_fmt.go):
  they tie the generated `Decimal.Format` / `Decimal.Scan` and the hand-written `Go.FmtState` /
  `Go.ScanState` (D128/Go/Fmt.lean) to what `fmt.Sprintf`, `fmt.Sscan`, `fmt.Sscanln`, `fmt.Sscanf` do.

  * `api.FmtSprintf <d> <spec> <stars> <state> <verb> = <out>`: `<state>`, `<verb>` are what fmt handed to a
    probe Formatter for the verb string; the model is `Decimal.Format` on that state, `<out>` what it wrote.
  * `api.FmtSscan <d> <mode> <spec> <input> <runes> = <d'> <n> <error class>`: the model is `Decimal.Scan`
    on the ScanState the three functions are documented to build (Sscan: newlines are space; Sscanln: a
    newline ends the input, and after the operand only space up to a newline or the end may follow; Sscanf:
    neither, leading space is skipped before the operand unless the verb is %c, the width limits the
    operand), `<runes>` being the input as the rune reader delivers it.
  * `fmt.ScanScript <mode> <wid> <input> <script> <runes> = <trace>`: a script of ScanState operations run
    by a probe Scanner inside the real functions, and by the definitions of Go/Fmt.lean here.
-/
import Oracle.Core

namespace Oracle
open Go

def errClassOf : Err → String
  | .nil => "nil"
  | .ioEOF => "eof"
  | .ioErrUnexpectedEOF => "unexpectedEOF"
  | .parseSyntaxError | .parseNumberSyntaxError => "syntax"
  | .parseRangeError | .parseNumberRangeError => "range"
  | _ => "other"

/-- the ScanState at the call of the operand's `Scan` method; `none`: fmt fails before it gets there
    (Sscanf: unexpected newline while skipping the leading space) -/
def scanStateFor (mode : String) (wid : Option Int64) (verb : Int32) (runes : Array Int32) : Option ScanState :=
  match mode with
  | "1" => some { input := runes, nlIsSpace := true }
  | "2" => some { input := runes, nlIsEnd := true }
  | _ =>
    let s0 : ScanState := { input := runes }
    let (s1, e) := if verb == 99 then (s0, none) else s0.skipCore
    match e with
    | some _ => none
    | none => some { s1 with wid := wid, used := 0, canUnread := false }

/-- `[width]verb` (ASCII) -/
def parseScanSpec (b : Bytes) : Option Int64 × Int32 :=
  let ds := b.toList.takeWhile fun c => 48 ≤ c && c ≤ 57
  let rest := b.toList.drop ds.length
  let verb : Int32 := match rest with | c :: _ => Int32.ofNat c.toNat | [] => 0
  if ds.isEmpty then (none, verb)
  else (some (Int64.ofNat (ds.foldl (fun n c => n * 10 + (c.toNat - 48)) 0)), verb)

/-- Sscanln: after the last operand "there must be a newline or EOF" (space may precede it) -/
def lnTail : Nat → ScanState → Bool
  | 0, _ => true
  | fuel + 1, s =>
    let (s1, r, _, err) := s.ReadRune
    if err != .nil then true
    else if r == 10 then true
    else if ScanState.isSpace r then lnTail fuel s1
    else false

def scriptPred (r : Int32) : Bool :=
  (decide (48 ≤ r) && decide (r ≤ 57)) || r == 43 || r == 45 || r == 0xe9 || r == 0x20ac || r == 0x1f600

def runScript : List Char → ScanState → List String → Except Panic (List String)
  | [], _, acc => pure acc.reverse
  | c :: cs, s, acc =>
    match c with
    | 'R' =>
      let (s1, r, size, err) := s.ReadRune
      runScript cs s1 (s!"R:{r.toInt}:{size.toInt}:{errClassOf err}" :: acc)
    | 'U' => do
      let (s1, err) ← s.UnreadRune
      runScript cs s1 (s!"U:{errClassOf err}" :: acc)
    | 'S' =>
      match s.skipCore with
      | (s1, none) => runScript cs s1 ("S:ok" :: acc)
      | (s1, some _) => runScript cs s1 ("S:panic" :: acc)
    | 'T' | 't' =>
      let (s1, tok, err) := s.Token (c == 'T') scriptPred
      runScript cs s1 (s!"T:{Codec.encBytes tok}:{errClassOf err}" :: acc)
    | 'W' =>
      let (w, ok) := s.Width
      runScript cs s (s!"W:{w.toInt}:{ok}" :: acc)
    | _ => runScript cs s acc

def fmtModelTable : List (String × Gen.Entry) := [
  ("api.FmtSprintf", fun _ a => do
      let d : Gen.Decimal ← Codec.dec (a.getD 0 "")
      let st : FmtState ← Codec.dec (a.getD 3 "")
      let verb : Int32 ← Codec.dec (a.getD 4 "")
      pure (do let f ← Gen.Decimal.Format d st verb; pure #[Codec.encBytes f.out])),
  ("api.FmtSscan", fun g a => do
      let d : Gen.Decimal ← Codec.dec (a.getD 0 "")
      let mode := a.getD 1 ""
      let spec ← Codec.decBytes (a.getD 2 "")
      let runes ← Codec.decRunes (a.getD 4 "")
      let (wid, verb) := if mode == "0" then parseScanSpec spec else (none, 118)
      match scanStateFor mode wid verb runes with
      | none => pure (pure #[Codec.enc d, "0", "other"])
      | some st =>
        match Gen.Decimal.Scan g d st verb with
        | .error (.unmodelled w) => pure (throw (.unmodelled w))
        | .error _ => pure (pure #[Codec.enc d, "0", "other"])   -- scanError: recovered by fmt, returned as the error
        | .ok (d', st', err) =>
          if err != .nil then
            pure (pure #[Codec.enc d', "0", errClassOf (if err == .ioEOF then .ioErrUnexpectedEOF else err)])
          else if mode == "2" && !lnTail (runes.size + 1) st' then pure (pure #[Codec.enc d', "1", "other"])
          else pure (pure #[Codec.enc d', "1", "nil"])),
  ("fmt.ScanScript", fun _ a => do
      let mode := a.getD 0 ""
      let wid ← Codec.decOptI64 (a.getD 1 "")
      let runes ← Codec.decRunes (a.getD 4 "")
      match scanStateFor mode wid 118 runes with
      | none => pure (pure #["-"])
      | some st => pure (do
          let tr ← runScript (a.getD 3 "").toList st []
          pure #[if tr.isEmpty then "-" else "|".intercalate tr]))
]

end Oracle
