/-
  Spec checks for the text-facing operations (C05, C06, C07, C13).
-/
import Oracle.SpecTable
import D128.Spec.Text

namespace Oracle
open Go Spec

def bytesToStr (b : Array UInt8) : Str := b.toList.map fun x => Char.ofNat x.toNat
def strToHex (s : Str) : String := Codec.encBytes (s.map fun c => UInt8.ofNat c.toNat).toArray
def showStr (s : Str) : String := String.ofList s

def modeOfG (g : Globals) : Option Mode := Mode.ofNat? g.DefaultRoundingMode.toNat

/-- expected (value, error class) of Parse-like entry points; `none` = no claim -/
def parseExpect (g : Globals) (payload : UInt64) (s : Str) : Option (Option Val × String) :=
  if s.any (fun c => c.toNat ≥ 128) then some (none, "syntax") else
  match readLiteral true true s with
  | none => some (none, "syntax")
  | some (.inf n) => some (some (.inf n), "nil")
  | some (.nan signed) => if signed then none else some (some (.nan false payload), "nil")
  | some (.num n c sc) =>
    match modeOfG g with
    | none => none
    | some m =>
      let (v, rng) := literalValue m n c sc
      some (some v, if rng then "range" else "nil")

def checkParse (payload : UInt64) (valueOnError : Bool) : SpecFn := fun g a r => do
  let b ← Codec.decBytes (a.getD (a.size - 1) "")
  match parseExpect g payload (bytesToStr b) with
  | none => none
  | some (v, cls) =>
    if r.getD (r.size - 1) "" != cls then
      some (some s!"error class: spec={cls} impl={r.getD (r.size - 1) ""}")
    else match v with
      | none => some none
      | some want =>
        if cls != "nil" && !valueOnError then some none
        else some (expectVal (decDec (r.getD 0 "")) want)

def finiteStr (x : Val) (f : Bool → Slice → Str) : Str :=
  match x with
  | .nan .. => "NaN".toList
  | .inf n => (if n then "-Inf" else "+Inf").toList
  | .fin n c e => f n (sliceOf c e)

def expectStr (got : String) (want : Str) : Option String :=
  match Codec.decBytes got with
  | none => some "unparsable bytes"
  | some b => if bytesToStr b == want then none
              else some s!"spec=\"{showStr want}\" impl=\"{showStr (bytesToStr b)}\""

/-- parse a fmt spec without the leading % : flags, width, .prec, verb -/
def parseSpec (s : Str) : Option (Flags × Option Nat × Option Nat × Char) :=
  let rec flags (s : Str) (f : Flags) : Flags × Str :=
    match s with
    | '+' :: r => flags r { f with plus := true }
    | '-' :: r => flags r { f with minus := true }
    | '#' :: r => flags r { f with sharp := true }
    | ' ' :: r => flags r { f with space := true }
    | '0' :: r => flags r { f with zero := true }
    | r => (f, r)
  let (f, r) := flags s {}
  let (w, nw, r) := readDigits false r 0 0
  let (p, r) := match r with
    | '.' :: r' => let (p, _, r'') := readDigits false r' 0 0; (some p, r'')
    | r' => (none, r')
  match r with
  | [v] => some (f, if nw > 0 then some w else none, p, v)
  | _ => none

def fmtExpect (x : Val) (spec : Str) : Option Str :=
  match parseSpec spec, x with
  | some (f, w, p, v), .fin n c e =>
    -- the properties speak of precisions and widths up to 100000
    if w.getD 0 > 100000 || p.getD 0 > 100000 then none else
    if v == 'e' || v == 'E' || v == 'f' || v == 'F' || v == 'g' || v == 'G' then
      some (fmtSpec f v p w n (sliceOf c e))
    else none
  | _, _ => none

/-- a numeral has superfluous digits when its fraction ends in 0, or when it is in exponent form and
    its mantissa (other than "0") ends in 0 -/
def superfluous (s : Str) : Bool :=
  let s := match s with | '-' :: r => r | r => r
  let (mant, tail) := s.span (fun c => c != 'e' && c != 'E')
  let hasPoint := mant.contains '.'
  (hasPoint && mant.getLast? == some '0') ||
  (!tail.isEmpty && !hasPoint && mant != ['0'] && mant.getLast? == some '0')

def textSpecs : List (String × SpecFn) := [
  ("api.Parse", checkParse 6 true),
  ("api.UnmarshalText", checkParse 8 false),
  -- a value made by the library itself (Parse) and then marshalled: the independent BID reader must see that value
  ("api.ParseBinary", fun g a r => do
      let b ← Codec.decBytes (a.getD 0 "")
      let out ← Codec.decBytes (r.getD 0 "")
      match parseExpect g 6 (bytesToStr b) with
      | some (some v, "nil") =>
        (match bidDecode out with
         | none => some (some s!"not 16 bytes: {out.size}")
         | some w => some (if w.same v then none else some s!"BID decoder reads {showVal w}, the literal denotes {showVal v}"))
      | _ => none),
  ("api.MustParse", fun g a r => do
      let b ← Codec.decBytes (a.getD 0 "")
      match parseExpect g 4 (bytesToStr b) with
      | none => none
      | some (_, "syntax") => some (expectTok (r.getD 0 "") "PANIC:explicit")
      | some (some v, "nil") => some (expectVal (decDec (r.getD 0 "")) v)
      | some _ => none),
  ("api.Sscan", fun g a r => do
      let b ← Codec.decBytes (a.getD 1 "")
      match parseExpect g 7 (bytesToStr b) with
      | some (some v, "nil") =>
        if r.getD 2 "" != "nil" then some (some s!"Sscan failed on a well-formed numeral: {r.getD 2 ""}")
        else some (expectVal (decDec (r.getD 0 "")) v)
      | some (some _, "range") => some (expectTok (r.getD 2 "") "range")
      | _ => none),
  ("api.String", fun _ a r => do
      let x ← decDec (a.getD 0 "")
      some (expectStr (r.getD 0 "") (finiteStr x fun n s => shortestG n s 'e'))),
  ("api.MarshalText", fun _ a r => do
      let x ← decDec (a.getD 0 "")
      if r.getD 1 "" != "nil" then some (some "error returned") else
      some (expectStr (r.getD 0 "") (finiteStr x fun n s => shortestG n s 'e'))),
  ("api.Format", fun _ a r => do
      let x ← decDec (a.getD 0 "")
      let vb ← Codec.decBytes (a.getD 1 ""); let v := Char.ofNat (vb.getD 0 0).toNat
      let p ← decInt (a.getD 2 "")
      if !(v == 'e' || v == 'E' || v == 'f' || v == 'g' || v == 'G') then none else
      if p < 0 then
        some (expectStr (r.getD 0 "") (finiteStr x fun n s =>
          if v == 'e' || v == 'E' then shortestE n s v else if v == 'f' then shortestF n s
          else shortestG n s (if v == 'G' then 'E' else 'e')))
      else
        some (expectStr (r.getD 0 "") (finiteStr x fun n s => fmtSpec {} v (some p.toNat) none n s))),
  ("api.Append", fun _ a r => do
      let buf ← Codec.decBytes (a.getD 0 "")
      let x ← decDec (a.getD 1 "")
      let vb ← Codec.decBytes (a.getD 2 ""); let v := Char.ofNat (vb.getD 0 0).toNat
      let p ← decInt (a.getD 3 "")
      if !(v == 'e' || v == 'E' || v == 'f' || v == 'g' || v == 'G') then none else
      let body := if p < 0 then
          (finiteStr x fun n s =>
            if v == 'e' || v == 'E' then shortestE n s v else if v == 'f' then shortestF n s
            else shortestG n s (if v == 'G' then 'E' else 'e'))
        else (finiteStr x fun n s => fmtSpec {} v (some p.toNat) none n s)
      some (expectStr (r.getD 0 "") (bytesToStr buf ++ body))),
  ("api.Sprintf", fun _ a r => do
      let sp ← Codec.decBytes (a.getD 0 ""); let x ← decDec (a.getD 1 "")
      if sp == "v".toUTF8.data then
        some (expectStr (r.getD 0 "") (finiteStr x fun n s => shortestG n s 'e'))
      else match fmtExpect x (bytesToStr sp) with
        | none => none
        | some want => some (expectStr (r.getD 0 "") want)),
  ("api.DecimalAppend", fun _ a r => do
      let buf ← Codec.decBytes (a.getD 0 ""); let x ← decDec (a.getD 1 "")
      let sp ← Codec.decBytes (a.getD 2 "")
      if sp == "v".toUTF8.data then
        some (expectStr (r.getD 0 "") (bytesToStr buf ++ finiteStr x fun n s => shortestG n s 'e'))
      else match fmtExpect x (bytesToStr sp) with
        | none => none
        | some want => some (expectStr (r.getD 0 "") (bytesToStr buf ++ want))),
  -- validation of Spec.fmtSpec against the toolchain: a float64 that is exactly m·10^k
  ("api.Float64fmt", fun _ a r => do
      let sp ← Codec.decBytes (a.getD 0 "")
      let neg := a.getD 2 "" == "T"
      let c ← (a.getD 3 "").toNat?; let e ← decInt (a.getD 4 "")
      match fmtExpect (.fin neg c e) (bytesToStr sp) with
      | none => none
      | some want => some (expectStr (r.getD 0 "") want)),
  ("api.MarshalJSON", fun _ a r => do
      let x ← decDec (a.getD 0 "")
      match x with
      | .fin n c e =>
        if r.getD 1 "" != "nil" then some (some s!"finite value rejected: {r.getD 1 ""}") else
        let b ← Codec.decBytes (r.getD 0 "")
        match readJsonNumber (bytesToStr b) with
        | none => some (some s!"not an RFC 8259 number: {showStr (bytesToStr b)}")
        | some (jn, jc, je, _) =>
          if jn != n then some (some "sign differs")
          else if !(Val.fin n jc je).same (.fin n c e) then some (some s!"denotes another value: {showStr (bytesToStr b)}")
          else if superfluous (bytesToStr b) then
            some (some s!"superfluous digits: {showStr (bytesToStr b)}")
          else some none
      | _ => some (expectTok (r.getD 1 "") "unsupportedValue")),
  ("api.UnmarshalJSON", fun g a r => do
      let b ← Codec.decBytes (a.getD 1 "")
      let s := bytesToStr b
      if s == "null".toList then some (expectTok s!"{r.getD 0 ""} {r.getD 1 ""}" s!"{a.getD 0 ""} nil")
      else match readJsonNumber s with
        | some (n, c, sc, _) =>
          match modeOfG g with
          | none => none
          | some m =>
            let (v, rng) := literalValue m n c sc
            if rng then (if r.getD 1 "" == "nil" then some (some "overflowing number accepted") else some none)
            else if r.getD 1 "" != "nil" then some (some s!"JSON number rejected: {r.getD 1 ""}")
            else some (expectVal (decDec (r.getD 0 "")) v)
        | none =>
          -- not a JSON number: if it is not even a literal Parse accepts, it must be an error
          match readLiteral false false (match s with | '+' :: r => r | r => r) with
          | none => if s == [] then none
                    else if r.getD 1 "" == "nil" then some (some "non-number accepted")
                    else some (expectTok (r.getD 0 "") (a.getD 0 ""))
          | some _ => none),
  ("api.JSONVia", fun _ a r => do
      let x ← decDec (a.getD 0 "")
      match x with
      | .fin .. =>
        if r.size != 4 then some (some s!"round trip failed: {r.getD 0 ""}") else
        some ((List.range 4).foldl (fun acc i => acc <|> expectVal (decDec (r.getD i "")) x) none)
      | _ => some (expectTok (r.getD 0 "") "marshal:unsupportedValue"))
]

def fullSpecTable : SpecTable := textSpecs.foldl (fun m (k, v) => m.insert k v) specTable

end Oracle
