/-
  Spec checks per protocol operation: compare the implementation's result tokens with Spec.*
-/
import Oracle.Core
import D128.Spec.Arith
import D128.Spec.Bid

namespace Oracle
open Go Spec

def decDec (s : String) : Option Val := do
  let w ← Codec.words s 2
  pure (interp w[0]! w[1]!)

def decBits (s : String) : Option (UInt64 × UInt64) := do
  let w ← Codec.words s 2
  pure (w[0]!, w[1]!)

def showVal : Val → String
  | .nan n p => s!"NaN(neg={n},payload={p})"
  | .inf n => if n then "-Inf" else "+Inf"
  | .fin n c e => s!"{if n then "-" else "+"}{c}e{e}"

def modeOf (s : String) : Option Mode := do let n ← s.toNat?; Mode.ofNat? n

def expectVal (got : Option Val) (want : Val) : Option String :=
  match got with
  | none => some "unparsable result"
  | some g => if g.same want then none else some s!"spec={showVal want} impl={showVal g}"

/-- binary operation with explicit mode: args x y m -/
def binMode (f : Mode → Val → Val → Val) : SpecFn := fun _ a r => do
  let x ← decDec (a.getD 0 ""); let y ← decDec (a.getD 1 "")
  match modeOf (a.getD 2 "") with
  | none => none                              -- not one of the six modes: no claim
  | some m => some (expectVal (decDec (r.getD 0 "")) (f m x y))

/-- binary operation under DefaultRoundingMode: args x y -/
def binDefault (f : Mode → Val → Val → Val) : SpecFn := fun g a r => do
  let x ← decDec (a.getD 0 ""); let y ← decDec (a.getD 1 "")
  match Mode.ofNat? g.DefaultRoundingMode.toNat with
  | none => none
  | some m => some (expectVal (decDec (r.getD 0 "")) (f m x y))

def expect2 (got1 got2 : Option Val) (want : Val × Val) (qZeroSignFree : Bool) : Option String :=
  match got1, got2 with
  | some g1, some g2 =>
    let ok1 := g1.same want.1 || (qZeroSignFree && g1.isZero && want.1.isZero)
    if ok1 && g2.same want.2 then none
    else some s!"spec=({showVal want.1}, {showVal want.2}) impl=({showVal g1}, {showVal g2})"
  | _, _ => some "unparsable result"

def quoRemMode : SpecFn := fun _ a r => do
  let x ← decDec (a.getD 0 ""); let y ← decDec (a.getD 1 "")
  match modeOf (a.getD 2 "") with
  | none => none
  | some m => some (expect2 (decDec (r.getD 0 "")) (decDec (r.getD 1 "")) (quoRem m x y) true)

def quoRemDefault : SpecFn := fun g a r => do
  let x ← decDec (a.getD 0 ""); let y ← decDec (a.getD 1 "")
  match Mode.ofNat? g.DefaultRoundingMode.toNat with
  | none => none
  | some m => some (expect2 (decDec (r.getD 0 "")) (decDec (r.getD 1 "")) (quoRem m x y) true)

def expectTok (got : String) (want : String) : Option String :=
  if got == want then none else some s!"spec={want} impl={got}"

def cmpLike (f : Val → Val → Int) : SpecFn := fun _ a r => do
  let x ← decDec (a.getD 0 ""); let y ← decDec (a.getD 1 "")
  some (expectTok (r.getD 0 "") (toString (f x y)))

def boolTok (b : Bool) : String := if b then "T" else "F"

def specList : List (String × SpecFn) := [
  ("Decimal.AddWithMode", binMode add),
  ("Decimal.SubWithMode", binMode sub),
  ("Decimal.Add", binDefault add),
  ("Decimal.Sub", binDefault sub),
  ("Decimal.MulWithMode", binMode mul),
  ("Decimal.QuoWithMode", binMode quo),
  ("Decimal.Mul", binDefault mul),
  ("Decimal.Quo", binDefault quo),
  ("Decimal.QuoRemWithMode", quoRemMode),
  ("Decimal.QuoRem", quoRemDefault),
  ("Decimal.Cmp", cmpLike cmp),
  ("Decimal.CmpAbs", cmpLike cmpAbs),
  ("Compare", cmpLike compare),
  ("api.CohortSame", fun _ _ r => some (expectTok (r.getD 0 "") "same")),
  ("api.CmpFlags", fun _ a r => do
      let x ← decDec (a.getD 0 ""); let y ← decDec (a.getD 1 "")
      let fl := fun (c : Int) => [c == -1, c == -1 || c == 0, c == 0, c == 1 || c == 0, c == 1].map boolTok
      some (expectTok (" ".intercalate r.toList) (" ".intercalate (fl (cmp x y) ++ fl (cmpAbs x y))))),
  ("Decimal.Equal", fun _ a r => do
      let x ← decDec (a.getD 0 ""); let y ← decDec (a.getD 1 "")
      some (expectTok (r.getD 0 "") (boolTok (equal x y)))),
  ("Min", fun _ a r => do
      let x ← decDec (a.getD 0 ""); let y ← decDec (a.getD 1 "")
      some (expectVal (decDec (r.getD 0 "")) (minVal x y))),
  ("Max", fun _ a r => do
      let x ← decDec (a.getD 0 ""); let y ← decDec (a.getD 1 "")
      some (expectVal (decDec (r.getD 0 "")) (maxVal x y))),
  ("Decimal.IsZero", fun _ a r => do
      let x ← decDec (a.getD 0 "")
      some (expectTok (r.getD 0 "") (boolTok (isZero x)))),
  ("Decimal.Sign", fun _ a r => do
      let x ← decDec (a.getD 0 "")
      match sign x with
      | none => some (expectTok (r.getD 0 "") "PANIC:explicit")
      | some s => some (expectTok (r.getD 0 "") (toString s)))
]

def decInt (s : String) : Option Int := s.toInt?

def unaryVal (f : Val → Val) : SpecFn := fun _ a r => do
  let x ← decDec (a.getD 0 "")
  some (expectVal (decDec (r.getD 0 "")) (f x))

def satSpec (lo hi : Int) : SpecFn := fun _ a r => do
  let x ← decDec (a.getD 0 "")
  match sat lo hi x with
  | none => some (expectTok (r.getD 0 "") "PANIC:explicit")
  | some (v, ok) => some (expectTok (s!"{r.getD 0 ""} {r.getD 1 ""}") s!"{v} {boolTok ok}")

def fromIntSpec : SpecFn := fun _ a r => do
  let i ← decInt (a.getD 0 "")
  some (expectVal (decDec (r.getD 0 "")) (fromInt i))

def specList2 : List (String × SpecFn) := [
  ("Decimal.Round", fun _ a r => do
      let x ← decDec (a.getD 0 ""); let dp ← decInt (a.getD 1 "")
      match modeOf (a.getD 2 "") with
      | none => none
      | some m => some (expectVal (decDec (r.getD 0 "")) (quantize dp m x))),
  ("Decimal.Ceil", fun _ a r => do
      let x ← decDec (a.getD 0 ""); let dp ← decInt (a.getD 1 "")
      some (expectVal (decDec (r.getD 0 "")) (ceilDp dp x))),
  ("Decimal.Floor", fun _ a r => do
      let x ← decDec (a.getD 0 ""); let dp ← decInt (a.getD 1 "")
      some (expectVal (decDec (r.getD 0 "")) (floorDp dp x))),
  ("Round", unaryVal (quantize 0 .nearestAway)),
  ("Trunc", unaryVal (quantize 0 .toZero)),
  ("Ceil", unaryVal (ceilDp 0)),
  ("Floor", unaryVal (floorDp 0)),
  ("New", fun g a r => do
      let sig ← decInt (a.getD 0 ""); let e ← decInt (a.getD 1 "")
      let want := newVal .nearestEven sig e
      -- the property fixes nearest-even; under another DefaultRoundingMode only exact cases are claimed
      if g.DefaultRoundingMode == 0 || want.same (newVal .toZero sig e) && want.same (newVal .awayFromZero sig e)
      then some (expectVal (decDec (r.getD 0 "")) want) else none),
  ("Ldexp", fun g a r => do
      let x ← decDec (a.getD 0 ""); let e ← decInt (a.getD 1 "")
      let want := ldexp .nearestEven x e
      if g.DefaultRoundingMode == 0 || want.same (ldexp .toZero x e) && want.same (ldexp .awayFromZero x e)
      then some (expectVal (decDec (r.getD 0 "")) want) else none),
  ("Frexp", fun _ a r => do
      let x ← decDec (a.getD 0 "")
      let (f, e) := frexp x
      match expectVal (decDec (r.getD 0 "")) f with
      | some m => some (some m)
      | none => some (expectTok (r.getD 1 "") (toString e))),
  ("Decimal.Int64_", satSpec (-(2^63)) (2^63 - 1)),
  ("Decimal.Int32_", satSpec (-(2^31)) (2^31 - 1)),
  ("Decimal.Uint64", satSpec 0 (2^64 - 1)),
  ("Decimal.Uint32", satSpec 0 (2^32 - 1)),
  ("FromInt64", fromIntSpec), ("FromInt32", fromIntSpec), ("FromUint64", fromIntSpec), ("FromUint32", fromIntSpec),
  ("Decimal.Canonical", fun _ a r => do
      let x ← decDec (a.getD 0 "")
      let (lo, hi) := canonical x
      some (expectTok (r.getD 0 "") (Codec.hex16 hi ++ Codec.hex16 lo))),
  ("Decimal.MarshalBinary", fun _ a r => do
      let x ← decDec (a.getD 0 "")
      let b ← Codec.decBytes (r.getD 0 "")
      if r.getD 1 "" != "nil" then some (some "error returned") else
      match bidDecode b with
      | none => some (some s!"not 16 bytes: {b.size}")
      | some v => some (if v == x then none else some s!"BID decoder reads {showVal v}, library value {showVal x} (sign, coefficient, exponent / payload must agree exactly)")),
  ("api.BinRoundTrip", fun _ a r => some (expectTok s!"{r.getD 0 ""} {r.getD 1 ""}" s!"{a.getD 0 ""} nil")),
  ("Decimal.UnmarshalBinary", fun _ a r => do
      let b ← Codec.decBytes (a.getD 1 "")
      if b.size == 16 then
        let hi := Codec.hexN 16 (beNat (b.extract 0 8)); let lo := Codec.hexN 16 (beNat (b.extract 8 16))
        some (expectTok s!"{r.getD 0 ""} {r.getD 1 ""}" s!"{hi}{lo} nil")
      else some (expectTok s!"{r.getD 0 ""} {r.getD 1 ""}" s!"{a.getD 0 ""} errorsNew"))
]

def specTable : SpecTable := (specList ++ specList2).foldl (fun m (k, v) => m.insert k v) {}

end Oracle
