/-
  Spec checks per protocol operation: compare the implementation's result tokens with Spec.*
-/
import Oracle.Core
import D128.Spec.Arith

namespace Oracle
open Go Spec

def decDec (s : String) : Option Val := do
  let w ← Codec.words s 2
  pure (interp w[0]! w[1]!)

def decBits (s : String) : Option (UInt64 × UInt64) := do
  let w ← Codec.words s 2
  pure (w[0]!, w[1]!)

def showVal : Val → String
  | .nan n p => s!"NaN(neg={n},payload={p})"
  | .inf n => if n then "-Inf" else "+Inf"
  | .fin n c e => s!"{if n then "-" else "+"}{c}e{e}"

def modeOf (s : String) : Option Mode := do let n ← s.toNat?; Mode.ofNat? n

def expectVal (got : Option Val) (want : Val) : Option String :=
  match got with
  | none => some "unparsable result"
  | some g => if g.same want then none else some s!"spec={showVal want} impl={showVal g}"

/-- binary operation with explicit mode: args x y m -/
def binMode (f : Mode → Val → Val → Val) : SpecFn := fun _ a r => do
  let x ← decDec (a.getD 0 ""); let y ← decDec (a.getD 1 "")
  match modeOf (a.getD 2 "") with
  | none => none                              -- not one of the six modes: no claim
  | some m => some (expectVal (decDec (r.getD 0 "")) (f m x y))

/-- binary operation under DefaultRoundingMode: args x y -/
def binDefault (f : Mode → Val → Val → Val) : SpecFn := fun g a r => do
  let x ← decDec (a.getD 0 ""); let y ← decDec (a.getD 1 "")
  match Mode.ofNat? g.DefaultRoundingMode.toNat with
  | none => none
  | some m => some (expectVal (decDec (r.getD 0 "")) (f m x y))

def expect2 (got1 got2 : Option Val) (want : Val × Val) (qZeroSignFree : Bool) : Option String :=
  match got1, got2 with
  | some g1, some g2 =>
    let ok1 := g1.same want.1 || (qZeroSignFree && g1.isZero && want.1.isZero)
    if ok1 && g2.same want.2 then none
    else some s!"spec=({showVal want.1}, {showVal want.2}) impl=({showVal g1}, {showVal g2})"
  | _, _ => some "unparsable result"

def quoRemMode : SpecFn := fun _ a r => do
  let x ← decDec (a.getD 0 ""); let y ← decDec (a.getD 1 "")
  match modeOf (a.getD 2 "") with
  | none => none
  | some m => some (expect2 (decDec (r.getD 0 "")) (decDec (r.getD 1 "")) (quoRem m x y) true)

def quoRemDefault : SpecFn := fun g a r => do
  let x ← decDec (a.getD 0 ""); let y ← decDec (a.getD 1 "")
  match Mode.ofNat? g.DefaultRoundingMode.toNat with
  | none => none
  | some m => some (expect2 (decDec (r.getD 0 "")) (decDec (r.getD 1 "")) (quoRem m x y) true)

def expectTok (got : String) (want : String) : Option String :=
  if got == want then none else some s!"spec={want} impl={got}"

def cmpLike (f : Val → Val → Int) : SpecFn := fun _ a r => do
  let x ← decDec (a.getD 0 ""); let y ← decDec (a.getD 1 "")
  some (expectTok (r.getD 0 "") (toString (f x y)))

def boolTok (b : Bool) : String := if b then "T" else "F"

def specList : List (String × SpecFn) := [
  ("Decimal.AddWithMode", binMode add),
  ("Decimal.SubWithMode", binMode sub),
  ("Decimal.Add", binDefault add),
  ("Decimal.Sub", binDefault sub),
  ("Decimal.MulWithMode", binMode mul),
  ("Decimal.QuoWithMode", binMode quo),
  ("Decimal.Mul", binDefault mul),
  ("Decimal.Quo", binDefault quo),
  ("Decimal.QuoRemWithMode", quoRemMode),
  ("Decimal.QuoRem", quoRemDefault),
  ("Decimal.Cmp", cmpLike cmp),
  ("Decimal.CmpAbs", cmpLike cmpAbs),
  ("Compare", cmpLike compare),
  ("Decimal.Equal", fun _ a r => do
      let x ← decDec (a.getD 0 ""); let y ← decDec (a.getD 1 "")
      some (expectTok (r.getD 0 "") (boolTok (equal x y)))),
  ("Min", fun _ a r => do
      let x ← decDec (a.getD 0 ""); let y ← decDec (a.getD 1 "")
      some (expectVal (decDec (r.getD 0 "")) (minVal x y))),
  ("Max", fun _ a r => do
      let x ← decDec (a.getD 0 ""); let y ← decDec (a.getD 1 "")
      some (expectVal (decDec (r.getD 0 "")) (maxVal x y))),
  ("Decimal.IsZero", fun _ a r => do
      let x ← decDec (a.getD 0 "")
      some (expectTok (r.getD 0 "") (boolTok (isZero x)))),
  ("Decimal.Sign", fun _ a r => do
      let x ← decDec (a.getD 0 "")
      match sign x with
      | none => some (expectTok (r.getD 0 "") "PANIC:explicit")
      | some s => some (expectTok (r.getD 0 "") (toString s)))
]

def specTable : SpecTable := specList.foldl (fun m (k, v) => m.insert k v) {}

end Oracle
