/-
  Oracle driver: reads protocol lines `<drm> <op> <args…> = <results…>`, re-computes the results with the
  generated model (Gen.table), the hand models (Model.table) and checks them against the
  specification (Spec.check).  Core-only so that it links as a native executable.
-/
import D128.Gen.Dispatch
import Std.Data.HashMap

namespace Oracle
open Go

abbrev Table := Std.HashMap String Gen.Entry

def mkTable (l : List (String × Gen.Entry)) : Table :=
  l.foldl (fun m (k, v) => m.insert k v) {}

/-- a spec check: given globals, args and the implementation's result tokens, `none` = not applicable,
    `some none` = satisfied, `some (some msg)` = violated -/
abbrev SpecFn := Globals → Array String → Array String → Option (Option String)
abbrev SpecTable := Std.HashMap String SpecFn

structure Stats where
  total : Nat := 0
  model : Nat := 0
  spec : Nat := 0
  noModel : Nat := 0
  unmodelled : Nat := 0
  bad : Nat := 0
  modelMismatch : Nat := 0
  specViolation : Nat := 0

def splitLine (line : String) : Option (UInt8 × String × Array String × Array String) := do
  let toks := (line.splitOn " ").filter (· ≠ "")
  match toks with
  | drm :: op :: rest =>
    let n ← drm.toNat?
    let args := rest.takeWhile (· ≠ "=")
    let res := (rest.dropWhile (· ≠ "=")).drop 1
    pure (UInt8.ofNat n, op, args.toArray, res.toArray)
  | _ => none

def runModel (tbl : Table) (g : Globals) (op : String) (args : Array String) : Option (Array String) := do
  let f ← tbl[op]?
  match f g args with
  | none => some #["BADARGS"]
  | some (.ok r) => some r
  | some (.error p) => some #[Codec.panicName p]

/-- an exported entry point: `Name`, `Type.Name` with an upper-case method, or an `api.` operation -/
def isExported (op : String) : Bool :=
  if op.startsWith "api." then true else
  match op.splitOn "." with
  | [f] => f.front.isUpper
  | [_, m] => m.front.isUpper
  | _ => false

/-- documented panics (C20): Sign/Payload/Int64…/Int/Rat/Float on NaN (Int, Rat also on ±Inf), MustParse -/
def panicDocumented (op : String) (args : Array String) : Bool :=
  let a0 := args.getD 0 ""
  let isNaN := a0.length == 32 && (a0.startsWith "7c" || a0.startsWith "7d" || a0.startsWith "7e" || a0.startsWith "7f" ||
                                   a0.startsWith "fc" || a0.startsWith "fd" || a0.startsWith "fe" || a0.startsWith "ff")
  let isInf := a0.length == 32 && !isNaN && (a0.startsWith "78" || a0.startsWith "79" || a0.startsWith "7a" || a0.startsWith "7b" ||
                                             a0.startsWith "f8" || a0.startsWith "f9" || a0.startsWith "fa" || a0.startsWith "fb")
  match op with
  | "Decimal.Sign" | "Decimal.Int64_" | "Decimal.Int32_" | "Decimal.Uint64" | "Decimal.Uint32" | "api.Float"
  | "Decimal.Float" => isNaN
  | "Decimal.Payload_" | "api.Payload" => !isNaN
  | "api.Int" | "api.Rat" | "api.RatRoundTrip" | "Decimal.Int_" | "Decimal.Rat" => isNaN || isInf
  | "api.MustParse" | "MustParse" => true
  -- fmt layer: the scanError panic of fmt.ScanState.SkipSpace passes through Decimal.Scan (package fmt
  -- recovers it around the call of the Scan method and returns its error)
  | "Decimal.Scan" => match (Codec.dec (args.getD 1 "") : Option ScanState) with
    | some s => s.skipCore.2.isSome
    | none => false
  -- a State whose Width() is negative is outside what package fmt hands to a Formatter (a negative `*`
  -- width becomes the minus flag); Decimal.Format then can panic in make([]byte, …) (fmtF, kernel level)
  | "Decimal.Format" => match (Codec.dec (args.getD 1 "") : Option FmtState) with
    | some f => match f.wid with | some w => decide (w < 0) | none => false
    | none => false
  | _ => false

partial def loop (tbl : Table) (spec : SpecTable) (h : IO.FS.Stream) (out : IO.FS.Stream) (st : Stats) : IO Stats := do
  let line ← h.getLine
  if line.isEmpty then return st
  let line := line.trimAscii.toString
  if line.isEmpty then return ← loop tbl spec h out st
  match splitLine line with
  | none =>
    out.putStrLn s!"BADLINE {line}"
    loop tbl spec h out { st with total := st.total + 1, bad := st.bad + 1 }
  | some (drm, op, args, res) =>
    let g : Globals := ⟨drm⟩
    let mut st := { st with total := st.total + 1 }
    if res == #["HANG"] then
      -- the harness's watchdog: the call had not returned when the limit expired. Every property presupposes
      -- termination, so this is a violation with this input; the model is not run on it (it would loop as well)
      out.putStrLn s!"SPEC {line} ## the call did not return within the watchdog limit"
      return ← loop tbl spec h out { st with spec := st.spec + 1, specViolation := st.specViolation + 1 }
    match runModel tbl g op args with
    | none => st := { st with noModel := st.noModel + 1 }
    | some r =>
      -- the model stopped at a call of another package that is not modelled (Go.Panic.unmodelled):
      -- nothing to compare on this line
      if r == #["PANIC:unmodelled"] then
        st := { st with unmodelled := st.unmodelled + 1 }
      else
        st := { st with model := st.model + 1 }
        if r != res then
          st := { st with modelMismatch := st.modelMismatch + 1 }
          out.putStrLn s!"MODEL {line} ## model={" ".intercalate r.toList}"
    if op == "NONDET" then
      st := { st with spec := st.spec + 1, specViolation := st.specViolation + 1 }
      out.putStrLn s!"SPEC {line} ## nondeterministic result, modified input or modified global state"
    if (res.getD 0 "").startsWith "PANIC" && isExported op && !panicDocumented op args then
      st := { st with spec := st.spec + 1, specViolation := st.specViolation + 1 }
      out.putStrLn s!"SPEC {line} ## undocumented panic of an exported entry point"
    match spec[op]? with
    | none => pure ()
    | some f =>
      match f g args res with
      | none => pure ()
      | some none => st := { st with spec := st.spec + 1 }
      | some (some msg) =>
        st := { st with spec := st.spec + 1, specViolation := st.specViolation + 1 }
        out.putStrLn s!"SPEC {line} ## {msg}"
    loop tbl spec h out st

def run (tbl : Table) (spec : SpecTable) : IO UInt32 := do
  let stdin ← IO.getStdin
  let stdout ← IO.getStdout
  let st ← loop tbl spec stdin stdout {}
  stdout.putStrLn s!"STATS total={st.total} model={st.model} spec={st.spec} nomodel={st.noModel} bad={st.bad} model_mismatch={st.modelMismatch} spec_violation={st.specViolation} unmodelled={st.unmodelled}"
  return 0

end Oracle
