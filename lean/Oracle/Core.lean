/-
  Oracle driver: reads protocol lines `<drm> <op> <args…> = <results…>`, re-computes the results with the
  generated model (Gen.table), the hand models (Model.table) and checks them against the
  specification (Spec.check).  Core-only so that it links as a native executable.
-/
import D128.Gen.Dispatch
import Std.Data.HashMap

namespace Oracle
open Go

abbrev Table := Std.HashMap String Gen.Entry

def mkTable (l : List (String × Gen.Entry)) : Table :=
  l.foldl (fun m (k, v) => m.insert k v) {}

/-- a spec check: given globals, args and the implementation's result tokens, `none` = not applicable,
    `some none` = satisfied, `some (some msg)` = violated -/
abbrev SpecFn := Globals → Array String → Array String → Option (Option String)
abbrev SpecTable := Std.HashMap String SpecFn

structure Stats where
  total : Nat := 0
  model : Nat := 0
  spec : Nat := 0
  noModel : Nat := 0
  bad : Nat := 0
  modelMismatch : Nat := 0
  specViolation : Nat := 0

def splitLine (line : String) : Option (UInt8 × String × Array String × Array String) := do
  let toks := (line.splitOn " ").filter (· ≠ "")
  match toks with
  | drm :: op :: rest =>
    let n ← drm.toNat?
    let args := rest.takeWhile (· ≠ "=")
    let res := (rest.dropWhile (· ≠ "=")).drop 1
    pure (UInt8.ofNat n, op, args.toArray, res.toArray)
  | _ => none

def runModel (tbl : Table) (g : Globals) (op : String) (args : Array String) : Option (Array String) := do
  let f ← tbl[op]?
  match f g args with
  | none => some #["BADARGS"]
  | some (.ok r) => some r
  | some (.error p) => some #[Codec.panicName p]

partial def loop (tbl : Table) (spec : SpecTable) (h : IO.FS.Stream) (out : IO.FS.Stream) (st : Stats) : IO Stats := do
  let line ← h.getLine
  if line.isEmpty then return st
  let line := line.trimAscii.toString
  if line.isEmpty then return ← loop tbl spec h out st
  match splitLine line with
  | none =>
    out.putStrLn s!"BADLINE {line}"
    loop tbl spec h out { st with total := st.total + 1, bad := st.bad + 1 }
  | some (drm, op, args, res) =>
    let g : Globals := ⟨drm⟩
    let mut st := { st with total := st.total + 1 }
    match runModel tbl g op args with
    | none => st := { st with noModel := st.noModel + 1 }
    | some r =>
      st := { st with model := st.model + 1 }
      if r != res then
        st := { st with modelMismatch := st.modelMismatch + 1 }
        out.putStrLn s!"MODEL {line} ## model={" ".intercalate r.toList}"
    match spec[op]? with
    | none => pure ()
    | some f =>
      match f g args res with
      | none => pure ()
      | some none => st := { st with spec := st.spec + 1 }
      | some (some msg) =>
        st := { st with spec := st.spec + 1, specViolation := st.specViolation + 1 }
        out.putStrLn s!"SPEC {line} ## {msg}"
    loop tbl spec h out st

def run (tbl : Table) (spec : SpecTable) : IO UInt32 := do
  let stdin ← IO.getStdin
  let stdout ← IO.getStdout
  let st ← loop tbl spec stdin stdout {}
  stdout.putStrLn s!"STATS total={st.total} model={st.model} spec={st.spec} nomodel={st.noModel} bad={st.bad} model_mismatch={st.modelMismatch} spec_violation={st.specViolation}"
  return 0

end Oracle
