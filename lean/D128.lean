import D128.Go.Prelude
import D128.Gen.All
