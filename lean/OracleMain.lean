import Oracle.SpecText

def main : IO UInt32 :=
  Oracle.run (Oracle.mkTable Gen.table) Oracle.fullSpecTable
