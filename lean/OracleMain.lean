import Oracle.SpecKernel
import Oracle.FmtModel

def main : IO UInt32 :=
  Oracle.run (Oracle.mkTable (Gen.table ++ Oracle.fmtModelTable)) Oracle.kernelSpecTable
