import Oracle.SpecKernel

def main : IO UInt32 :=
  Oracle.run (Oracle.mkTable Gen.table) Oracle.kernelSpecTable
