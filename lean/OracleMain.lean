import Oracle.SpecElem

def main : IO UInt32 :=
  Oracle.run (Oracle.mkTable Gen.table) Oracle.allSpecTable
