import Oracle.Core

def main : IO UInt32 :=
  Oracle.run (Oracle.mkTable Gen.table) {}
